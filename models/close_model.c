/* C model of close(2) for the ghost-file harnesses (C12, C14 writer half).
 * `close` is reached from std's OwnedFd::drop when the writers drop their File. It is an
 * extern "C" function, which Kani stubbing rejects, so it is linked into the GOTO program
 * (kv: models=['close_model.c'], -Z c-ffi). The model always succeeds and records the calls;
 * harness/src/stubs_file.rs reads the counters through the accessors below. */
static int kv_closes = 0;
static int kv_last_fd = -1;

int close(int fd) {
  kv_closes++;
  kv_last_fd = fd;
  return 0;
}

int kv_close_count(void) { return kv_closes; }
int kv_close_last_fd(void) { return kv_last_fd; }
int kv_close_reset(void) { kv_closes = 0; kv_last_fd = -1; return 0; }
