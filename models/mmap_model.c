/* C model of the part of the OS that simple_sds::serialize::MemoryMap talks to:
 * mmap(2), munmap(2), close(2) on ONE regular file (DESIGN C13/C18).
 *
 * Linked into the GOTO program with goto-cc (kv: models=['mmap_model.c']); only exists
 * under Kani/CBMC.  The Rust side (harness/src/stubs_mmap.rs) drives and observes it through
 * the kv_* functions.
 *
 * The file: kv_file_create(cap_bytes, len_bytes) allocates the file's backing store
 * (cap_bytes rounded up to 8-byte words, zero filled, CONCRETE size) and sets the file length
 * (may be symbolic, <= cap).  A MAP_SHARED mapping of a file IS the file's page-cache pages, so
 * a successful mmap returns the backing store itself: the first `len` bytes are the file
 * content, stores through the mapping are stores to the file.  The object ends at the capacity,
 * not at the page boundary: an access between the end of the file and the end of its last page,
 * which the real OS tolerates, is reported by CBMC as out of bounds (stricter than the OS, equal
 * to what MemoryMap promises: `len()` elements).  What mmap(2) says and the model follows:
 *   - len == 0                      -> MAP_FAILED (EINVAL)      -- never NULL
 *   - the OS refuses (ENOMEM, ENODEV, EACCES, ...) -> MAP_FAILED -- never NULL
 *   - success -> page-aligned address, ceil(len/4096) pages mapped
 * munmap(p, n): n == 0 -> EINVAL, nothing released; p not page aligned -> EINVAL; otherwise the
 * ceil(n/4096) pages starting at p are released (pages that are not mapped are ignored).
 * "Pages still mapped" is a bit mask over the backing pages (at most 32).
 */
#include <stddef.h>
#include <stdint.h>
#include <stdlib.h>

#define KV_PAGE 4096ul
#define KV_MAX_PAGES 32ul
/* (void *)(size_t)-1: the same bit pattern as Rust's `!0 as *mut c_void` under CBMC; `(void *)-1` from a 32-bit int compares unequal */
#define KV_MAP_FAILED ((void *)(size_t)-1)

static uint64_t *kv_backing = 0;      /* the file's pages, as 8-byte words (typed: keeps CBMC's encoding of word accesses small) */
static size_t kv_cap = 0;             /* bytes allocated (multiple of 8, CONCRETE in every instance) */
static size_t kv_len = 0;             /* file length in bytes */
static int kv_refuse = 0;             /* the OS refuses the next mmap calls */

/* observations */
static int kv_mmap_calls = 0;
static int kv_mmap_ok = 0;
static void *kv_mmap_addr = 0;
static size_t kv_mmap_len = 0;
static int kv_mmap_prot = 0;
static int kv_mmap_flags = 0;
static int kv_mmap_fd = -1;
static long kv_mmap_off = -1;
static int kv_mmap_oversize = 0;
static uint32_t kv_mapped_mask = 0; /* bit i: backing page i is mapped in the process */

static int kv_munmap_calls = 0;
static int kv_munmap_foreign = 0; /* munmap of an address that is not in the mapping */
static size_t kv_munmap_len = 0;

/* open(2) as seen by the std::fs stubs (kept here, not in Rust statics: kani-compiler was observed to
 * alias a zero-initialised `static mut` with rustc's interned all-zero constant allocations) */
static int kv_open_fails = 0;  /* harness: the file cannot be opened in the requested mode */
static int kv_opt_read = 0;    /* OpenOptions::read(v) */
static int kv_opt_write = 0;   /* OpenOptions::write(v) */
static int kv_open_calls = 0;
static int kv_opened_read = 0;
static int kv_opened_write = 0;

static int kv_fd_open = 0; /* number of open descriptors on the file */
static int kv_close_calls = 0;
static int kv_close_fd = -1;

static size_t kv_pages(size_t n) { return n / KV_PAGE + (n % KV_PAGE != 0 ? 1 : 0); }

/* bits [first, first+cnt) of a 32-bit mask, loop free */
static uint32_t kv_range(size_t first, size_t cnt)
{
    if (cnt == 0 || first >= KV_MAX_PAGES) return 0;
    uint32_t lo = ~(uint32_t)0 << first;
    uint32_t hi = (cnt >= KV_MAX_PAGES || first + cnt >= KV_MAX_PAGES) ? ~(uint32_t)0 : (((uint32_t)1 << (first + cnt)) - 1);
    return lo & hi;
}

/* ---- driven by the harness ---------------------------------------------------------- */

/* (every kv_* function returns a value: Kani declares a Rust `-> ()` foreign function with a unit struct return type, which does not link against C `void`) */
int kv_file_create(size_t cap_bytes, size_t len_bytes)
{
    size_t words = cap_bytes / 8 + (cap_bytes % 8 != 0 ? 1 : 0);
    if (words == 0) words = 1;
    __CPROVER_assert(kv_pages(words * 8) <= KV_MAX_PAGES, "mmap model: file capacity within 32 pages");
    __CPROVER_assert(len_bytes <= words * 8, "mmap model: file length within capacity");
    kv_cap = words * 8;
    kv_backing = (uint64_t *)malloc(sizeof(uint64_t) * words);
    __CPROVER_array_set(kv_backing, (uint64_t)0);
    kv_len = len_bytes;
    kv_refuse = 0;
    kv_mmap_calls = 0; kv_mmap_ok = 0; kv_mmap_addr = 0; kv_mmap_len = 0; kv_mmap_prot = 0; kv_mmap_flags = 0;
    kv_mmap_fd = -1; kv_mmap_off = -1; kv_mmap_oversize = 0; kv_mapped_mask = 0;
    kv_munmap_calls = 0; kv_munmap_foreign = 0; kv_munmap_len = 0;
    kv_fd_open = 0; kv_close_calls = 0; kv_close_fd = -1;
    kv_open_fails = 0; kv_opt_read = 0; kv_opt_write = 0; kv_open_calls = 0; kv_opened_read = 0; kv_opened_write = 0;
    return 0;
}

int kv_file_set_len(size_t len_bytes)
{
    __CPROVER_assert(len_bytes <= kv_cap, "mmap model: file length within capacity");
    kv_len = len_bytes;
    return 0;
}
size_t kv_file_len(void) { return kv_len; }
int kv_file_set_word(size_t i, uint64_t v) { kv_backing[i] = v; return 0; }
uint64_t kv_file_get_word(size_t i) { return kv_backing[i]; }
int kv_set_refuse(int r) { kv_refuse = r; return 0; }
int kv_set_open_fails(int f) { kv_open_fails = f; return 0; }
int kv_opt_set_read(int v) { kv_opt_read = v; return 0; }
int kv_opt_set_write(int v) { kv_opt_write = v; return 0; }
/* open(): returns 0 and a new descriptor is open, or -1 */
int kv_open(void)
{
    kv_open_calls++;
    kv_opened_read = kv_opt_read;
    kv_opened_write = kv_opt_write;
    if (kv_open_fails) return -1;
    kv_fd_open++;
    return 0;
}
int kv_get_open_calls(void) { return kv_open_calls; }
int kv_get_opened_read(void) { return kv_opened_read; }
int kv_get_opened_write(void) { return kv_opened_write; }
/* new observation window (next map/drop cycle); the file and the page state stay */
int kv_new_cycle(void)
{
    kv_mmap_calls = 0; kv_mmap_ok = 0; kv_munmap_calls = 0; kv_munmap_foreign = 0; kv_close_calls = 0; kv_open_calls = 0;
    return 0;
}

int kv_get_mmap_calls(void) { return kv_mmap_calls; }
int kv_get_mmap_ok(void) { return kv_mmap_ok; }
size_t kv_get_mmap_len(void) { return kv_mmap_len; }
int kv_get_mmap_prot(void) { return kv_mmap_prot; }
int kv_get_mmap_flags(void) { return kv_mmap_flags; }
int kv_get_mmap_fd(void) { return kv_mmap_fd; }
long kv_get_mmap_off(void) { return kv_mmap_off; }
int kv_get_mmap_addr_is_null(void) { return kv_mmap_addr == 0; }
int kv_get_mmap_oversize(void) { return kv_mmap_oversize; }
uint32_t kv_get_mapped_mask(void) { return kv_mapped_mask; }
int kv_get_munmap_calls(void) { return kv_munmap_calls; }
int kv_get_munmap_foreign(void) { return kv_munmap_foreign; }
size_t kv_get_munmap_len(void) { return kv_munmap_len; }
int kv_get_fd_open(void) { return kv_fd_open; }
int kv_get_close_calls(void) { return kv_close_calls; }
int kv_get_close_fd(void) { return kv_close_fd; }

/* ---- the OS ------------------------------------------------------------------------- */

void *mmap(void *addr, size_t len, int prot, int flags, int fd, long off)
{
    kv_mmap_calls++;
    kv_mmap_addr = addr; kv_mmap_len = len; kv_mmap_prot = prot; kv_mmap_flags = flags; kv_mmap_fd = fd; kv_mmap_off = off;
    if (len == 0) return KV_MAP_FAILED;      /* EINVAL */
    if (kv_refuse) return KV_MAP_FAILED;     /* ENOMEM, ENODEV, EACCES, ... */
    if (kv_backing == 0 || len > kv_cap) {
        kv_mmap_oversize = 1;                /* outside the model: the harness asserts this never happens */
        return KV_MAP_FAILED;
    }
    kv_mmap_ok++;
    kv_mapped_mask |= kv_range(0, kv_pages(len));
    return (void *)kv_backing;
}

int munmap(void *p, size_t n)
{
    kv_munmap_calls++;
    kv_munmap_len = n;
    if (n == 0) return -1;                   /* EINVAL */
    if (kv_backing == 0 || __CPROVER_POINTER_OBJECT(p) != __CPROVER_POINTER_OBJECT(kv_backing)) {
        kv_munmap_foreign++;
        return -1;
    }
    size_t o = __CPROVER_POINTER_OFFSET(p);
    if (o % KV_PAGE != 0) return -1;         /* EINVAL */
    kv_mapped_mask &= ~kv_range(o / KV_PAGE, kv_pages(n));
    return 0;
}

int close(int fd)
{
    kv_close_calls++;
    kv_close_fd = fd;
    if (kv_fd_open > 0) kv_fd_open--;
    return 0;
}
