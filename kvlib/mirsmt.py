"""mirsmt — engine E2: MIR -> SMT-LIB2 for two kernels Kani cannot compile.

  * bits::select, BMI2 path (C17): the MIR body (dumped from the current /repo
    tree with -C target-feature=+bmi2) is executed symbolically along its
    straight-line path and compared inside the solver with a 64-step scan.
  * serialize::temp_file_name (C20): the ordered accesses to the static
    TEMP_FILE_COUNTER, the value flowing into the formatted name and the
    format template are extracted from the MIR; T threads x C calls of the
    extracted access sequence are encoded under sequential consistency.

For select neither solver decides `cttz(pdep(1 << rank, n)) == scan(n, rank)` as one query (a counting argument
over two 64-step loops), so the loop states of the PDEP model and of the scan oracle are named constants and the proof
is cut into single-iteration lemmas (select_lemmas); every lemma is itself a query both solvers must answer `unsat`.

Rules: the encoding is regenerated from /repo on every run; only the MIR
statement / terminator / call kinds listed here are understood, anything else
raises Unsupported => status ERROR (inconclusive), never a pass.  /usr/bin/z3
and cvc5 must both answer; a `(error` line, `unknown`, a timeout or a
disagreement is inconclusive.  A `sat` answer is a counterexample *candidate*:
it is replayed natively against the real code and only a reproduced failure is
reported as a violation.
"""
import hashlib
import json
import os
import re
import shutil
import subprocess
import tempfile
import threading
import time

VERIF = os.path.dirname(os.path.dirname(os.path.abspath(__file__)))
REPO = os.environ.get('KV_REPO', '/repo')
Z3 = '/usr/bin/z3'
CVC5 = shutil.which('cvc5') or '/usr/bin/cvc5'
CRATE = 'simple_sds'


def log(*a):
    print(*a, flush=True)


def logline(name, status, secs, msg=''):
    log('kv:   %-44s %-9s %7.1fs  %s' % (name, status, secs, (msg or '')[:140]))


class Unsupported(Exception):
    """Something in the MIR (or around it) that this translator does not understand."""


# ----------------------------------------------------------------------------
# MIR dump

def _cargo_env(rustflags=None):
    env = dict(os.environ)
    env['CARGO_NET_OFFLINE'] = 'true'
    env.pop('RUSTUP_TOOLCHAIN', None)
    env.pop('RUSTFLAGS', None)
    env.pop('CARGO_ENCODED_RUSTFLAGS', None)
    if rustflags:
        env['RUSTFLAGS'] = rustflags
    return env


def dump_mir(scratch, bmi2):
    """Copy REPO into scratch (without target/, .git) and dump the MIR of the lib crate."""
    src = os.path.join(scratch, 'mirsmt-src')
    if not os.path.isdir(src):
        shutil.copytree(REPO, src, ignore=shutil.ignore_patterns('target', '.git'), symlinks=True)
    lib = os.path.join(src, 'src', 'lib.rs')
    if not os.path.exists(lib):
        raise Unsupported('no src/lib.rs in %s' % REPO)
    os.utime(lib, None)
    cmd = ['cargo', '+nightly', 'rustc', '--offline', '--lib', '--target-dir', os.path.join(scratch, 'mirsmt-target'),
           '--', '-Zunpretty=mir', '-Ztrim-diagnostic-paths=no']
    if bmi2:
        cmd += ['-C', 'target-feature=+bmi2']
    cmd += ['-C', 'debug-assertions=off', '-C', 'overflow-checks=on']
    t0 = time.time()
    p = subprocess.run(cmd, cwd=src, env=_cargo_env(), stdout=subprocess.PIPE, stderr=subprocess.PIPE, text=True)
    if p.returncode != 0 or not p.stdout.strip():
        raise Unsupported('MIR dump failed (the tree does not compile?): ' + (p.stderr or '')[-1500:])
    return p.stdout, ' '.join(cmd[:1] + cmd[1:6] + cmd[8:]), time.time() - t0


# ----------------------------------------------------------------------------
# MIR text -> items -> blocks

class Item:
    def __init__(self, kind, name, header, lines):
        self.kind, self.name, self.header, self.lines = kind, name, header, lines
        self.text = '\n'.join([header] + lines + ['}'])


def split_items(mir):
    """Top-level items of the dump: `fn NAME(..) -> T {`, `static NAME: T = {`, `const NAME: T = {`, ..."""
    items, cur = [], None
    for ln in mir.splitlines():
        if cur is None:
            m = re.match(r'^(fn|static mut|static|const|promoted\S*) (.*) \{\s*$', ln)
            if m and not ln.startswith(' '):
                kind = m.group(1)
                rest = m.group(2)
                if kind == 'fn':
                    mm = re.match(r'^(.*?)\((_\d+: .*)?\) -> (.*)$', rest)
                    name = mm.group(1) if mm else rest
                else:
                    name = rest.split(':', 1)[0] if not rest.startswith('<') else rest
                    mm = re.match(r'^((?:[^:<]|::|<[^>]*>)+?): ', rest)
                    if mm:
                        name = mm.group(1)
                cur = Item(kind, name, ln, [])
        else:
            if ln == '}':
                items.append(cur)
                cur = None
            else:
                cur.lines.append(ln)
    return items


def alloc_table(mir):
    """allocN -> description of what it is (`static: path` or None for plain memory)."""
    tab = {}
    for m in re.finditer(r'^(alloc\d+) \(([^)]*)\) \{', mir, re.M):
        a, d = m.group(1), m.group(2)
        s = re.match(r'static: ([^,]+),', d)
        v = ('static', s.group(1)) if s else ('mem', d)
        if a in tab and tab[a] != v:
            raise Unsupported('%s printed with two meanings' % a)
        tab[a] = v
    return tab


def split_top(s, sep=','):
    """Split at separators that are outside (), [], {}, <> and string literals."""
    out, depth, cur, i, n = [], 0, [], 0, len(s)
    while i < n:
        c = s[i]
        if c == '"':
            j = i + 1
            while j < n and s[j] != '"':
                j += 2 if s[j] == '\\' else 1
            if j >= n:
                raise Unsupported('unterminated string literal in: ' + s)
            cur.append(s[i:j + 1])
            i = j + 1
            continue
        if c in '([{<':
            depth += 1
        elif c in ')]}':
            depth -= 1
        elif c == '>' and not (i > 0 and s[i - 1] in '-='):
            depth -= 1
        if depth < 0:
            raise Unsupported('unbalanced brackets in: ' + s)
        if c == sep and depth == 0:
            out.append(''.join(cur).strip())
            cur = []
        else:
            cur.append(c)
        i += 1
    if depth != 0:
        raise Unsupported('unbalanced brackets in: ' + s)
    last = ''.join(cur).strip()
    if last or out:
        out.append(last)
    return out


class Fn:
    def __init__(self, item):
        self.name = item.name
        self.text = item.text
        m = re.match(r'^fn (.*?)\((.*)\) -> (.*) \{\s*$', item.header)
        if not m:
            raise Unsupported('cannot parse function header: ' + item.header)
        self.ret = m.group(3)
        self.params, self.types, self.debug = [], {}, {}
        for a in (split_top(m.group(2)) if m.group(2).strip() else []):
            mm = re.match(r'^_(\d+): (.*)$', a)
            if not mm:
                raise Unsupported('cannot parse parameter: ' + a)
            self.params.append(int(mm.group(1)))
            self.types[int(mm.group(1))] = mm.group(2)
        self.blocks, cur = {}, None
        for ln in item.lines:
            t = ln.strip()
            if not t or t == '}' or re.match(r'^scope \d+( \(.*\))? \{$', t):
                if t == '}' and cur is not None:
                    cur = None
                continue
            m = re.match(r'^let (mut )?_(\d+): (.*);$', t)
            if m and cur is None:
                self.types[int(m.group(2))] = m.group(3)
                continue
            m = re.match(r'^debug (\S+) => (.*);$', t)
            if m and cur is None:
                mm = re.match(r'^_(\d+)$', m.group(2))
                if mm:
                    self.debug[m.group(1)] = int(mm.group(1))
                continue
            m = re.match(r'^(bb\d+)( \(cleanup\))?: \{$', t)
            if m:
                cur = self.blocks.setdefault(m.group(1), {'cleanup': bool(m.group(2)), 'stmts': []})
                continue
            if cur is None:
                raise Unsupported('unrecognised line outside a basic block: ' + t)
            if not t.endswith(';'):
                raise Unsupported('statement does not end with `;`: ' + t)
            cur['stmts'].append(t[:-1])
        if 'bb0' not in self.blocks:
            raise Unsupported('function %s has no bb0' % self.name)


# ----------------------------------------------------------------------------
# symbolic execution of one straight-line path

INT = {'u8': (8, False), 'u16': (16, False), 'u32': (32, False), 'u64': (64, False), 'u128': (128, False), 'usize': (64, False),
       'i8': (8, True), 'i16': (16, True), 'i32': (32, True), 'i64': (64, True), 'i128': (128, True), 'isize': (64, True)}


def bvlit(v, w):
    return '(_ bv%d %d)' % (v % (1 << w), w)


def BV(w, signed, term):
    return ('bv', w, signed, term)


def resize(v, w):
    _, w0, signed, t = v
    if w == w0:
        return t
    if w < w0:
        return '((_ extract %d 0) %s)' % (w - 1, t)
    return '((_ %s %d) %s)' % ('sign_extend' if signed else 'zero_extend', w - w0, t)


def parse_bytes_literal(s):
    """Rust byte-string literal body (between the quotes) -> bytes."""
    out, i = bytearray(), 0
    simple = {'n': 10, 'r': 13, 't': 9, '\\': 92, '0': 0, "'": 39, '"': 34}
    while i < len(s):
        c = s[i]
        if c == '\\':
            e = s[i + 1]
            if e == 'x':
                out.append(int(s[i + 2:i + 4], 16))
                i += 4
            elif e in simple:
                out.append(simple[e])
                i += 2
            else:
                raise Unsupported('escape \\%s in byte string' % e)
        else:
            if ord(c) > 127:
                raise Unsupported('non-ASCII char in byte string')
            out.append(ord(c))
            i += 1
    return bytes(out)


class Exec:
    """Executes the unique non-cleanup path bb0 -> ... -> return.

    `calls(callee, args, dest_type, ex)` models a call or raises Unsupported.
    Collected: asserts = [(cond_term, message)], in path order; ret = value of _0.
    """
    BIN = ('Add', 'Sub', 'Mul', 'BitAnd', 'BitOr', 'BitXor', 'Shl', 'Shr', 'Lt', 'Le', 'Gt', 'Ge', 'Eq', 'Ne',
           'AddWithOverflow', 'SubWithOverflow', 'MulWithOverflow')

    def __init__(self, fn, allocs, calls, param_values):
        self.fn, self.allocs, self.calls = fn, allocs, calls
        self.env = dict(param_values)
        self.asserts = []
        self.kinds = set()
        self.mut_borrowed = set()
        self.trace = []

    # -- places and operands
    def place(self, p):
        p = p.strip()
        m = re.match(r'^_(\d+)$', p)
        if m:
            k = int(m.group(1))
            if k not in self.env:
                raise Unsupported('read of unassigned local _%d' % k)
            return self.env[k]
        m = re.match(r'^\((.+)\.(\d+): (.*)\)$', p)
        if m:
            base = self.place(m.group(1))
            if base[0] != 'tuple':
                raise Unsupported('field projection on a non-tuple value: ' + p)
            return base[1][int(m.group(2))]
        m = re.match(r'^\(\*(.+)\)$', p)
        if m:
            base = self.place(m.group(1))
            if base[0] != 'ref':
                raise Unsupported('deref of a non-reference value: ' + p)
            return self.place('_%d' % base[1])
        raise Unsupported('place expression: ' + p)

    def operand(self, o):
        o = o.strip()
        if o.startswith('no_retag '):
            o = o[len('no_retag '):]
        if o.startswith('copy ') or o.startswith('move '):
            return self.place(o[5:])
        if not o.startswith('const '):
            raise Unsupported('operand: ' + o)
        c = o[6:].strip()
        m = re.match(r'^(-?\d+)_([ui](?:8|16|32|64|128|size))$', c)
        if m:
            w, sg = INT[m.group(2)]
            return BV(w, sg, bvlit(int(m.group(1)), w))
        if c in ('true', 'false'):
            return ('bool', c)
        m = re.match(r'^\{(alloc\d+): (.*)\}$', c)
        if m:
            a = self.allocs.get(m.group(1))
            if not a or a[0] != 'static':
                raise Unsupported('constant pointer to non-static memory: ' + c)
            return ('static', a[1], m.group(2))
        m = re.match(r'^b"(.*)"$', c, re.S)
        if m:
            return ('bytes', parse_bytes_literal(m.group(1)))
        if c == '()':
            return ('tuple', [])
        raise Unsupported('constant: ' + c)

    # -- rvalues
    def binop(self, op, a, b):
        if op in ('Eq', 'Ne') and a[0] == 'bool' and b[0] == 'bool':
            t = '(= %s %s)' % (a[1], b[1])
            return ('bool', t if op == 'Eq' else '(not %s)' % t)
        if a[0] != 'bv' or b[0] != 'bv':
            raise Unsupported('%s on non-integer operands' % op)
        _, w, sg, x = a
        if op in ('Shl', 'Shr'):
            # MIR Shl/Shr: the shift amount is taken modulo the bit width of the left operand
            amt = '(bvand %s %s)' % (resize((b[0], b[1], False, b[3]), w), bvlit(w - 1, w))
            f = 'bvshl' if op == 'Shl' else ('bvashr' if sg else 'bvlshr')
            return BV(w, sg, '(%s %s %s)' % (f, x, amt))
        if b[1] != w or b[2] != sg:
            raise Unsupported('%s on operands of different integer types' % op)
        y = b[3]
        arith = {'Add': 'bvadd', 'Sub': 'bvsub', 'Mul': 'bvmul', 'BitAnd': 'bvand', 'BitOr': 'bvor', 'BitXor': 'bvxor'}
        if op in arith:
            return BV(w, sg, '(%s %s %s)' % (arith[op], x, y))
        cmp_ = {'Lt': 'bvult', 'Le': 'bvule', 'Gt': 'bvugt', 'Ge': 'bvuge'}
        if op in cmp_:
            f = cmp_[op].replace('bvu', 'bvs') if sg else cmp_[op]
            return ('bool', '(%s %s %s)' % (f, x, y))
        if op == 'Eq':
            return ('bool', '(= %s %s)' % (x, y))
        if op == 'Ne':
            return ('bool', '(not (= %s %s))' % (x, y))
        if sg:
            raise Unsupported('%s on signed integers' % op)
        if op == 'AddWithOverflow':
            s = '(bvadd %s %s)' % (x, y)
            return ('tuple', [BV(w, sg, s), ('bool', '(bvult %s %s)' % (s, x))])
        if op == 'SubWithOverflow':
            return ('tuple', [BV(w, sg, '(bvsub %s %s)' % (x, y)), ('bool', '(bvult %s %s)' % (x, y))])
        if op == 'MulWithOverflow':
            wide = '(bvmul ((_ zero_extend %d) %s) ((_ zero_extend %d) %s))' % (w, x, w, y)
            return ('tuple', [BV(w, sg, '(bvmul %s %s)' % (x, y)),
                              ('bool', '(not (= ((_ extract %d %d) %s) %s))' % (2 * w - 1, w, wide, bvlit(0, w)))])
        raise Unsupported('binary operator ' + op)

    def rvalue(self, r):
        r = r.strip()
        m = re.match(r'^&(mut )?_(\d+)$', r)
        if m:
            self.kinds.add('Ref')
            k = int(m.group(2))
            if k not in self.env:
                raise Unsupported('borrow of unassigned local _%d' % k)
            if m.group(1):
                self.mut_borrowed.add(k)
            return ('ref', k, bool(m.group(1)))
        if r.startswith('&'):
            raise Unsupported('borrow of a non-local place: ' + r)
        m = re.match(r'^(\w+)\((.*)\)$', r, re.S)
        if m and m.group(1) in self.BIN:
            ops = split_top(m.group(2))
            if len(ops) != 2:
                raise Unsupported('arity of ' + r)
            self.kinds.add(m.group(1))
            return self.binop(m.group(1), self.operand(ops[0]), self.operand(ops[1]))
        if m and m.group(1) in ('Not', 'Neg'):
            v = self.operand(m.group(2))
            self.kinds.add(m.group(1))
            if v[0] == 'bool' and m.group(1) == 'Not':
                return ('bool', '(not %s)' % v[1])
            if v[0] == 'bv':
                return BV(v[1], v[2], '(%s %s)' % ('bvnot' if m.group(1) == 'Not' else 'bvneg', v[3]))
            raise Unsupported('unary operator on ' + v[0])
        m = re.match(r'^(.*) as (\S+) \((\w+)\)$', r, re.S)
        if m:
            if m.group(3) != 'IntToInt' or m.group(2) not in INT:
                raise Unsupported('cast ' + r)
            v = self.operand(m.group(1))
            if v[0] != 'bv':
                raise Unsupported('IntToInt cast of a non-integer')
            self.kinds.add('Cast(IntToInt)')
            w, sg = INT[m.group(2)]
            return BV(w, sg, resize(v, w))
        if r.startswith('(') and r.endswith(')') and not re.match(r'^\((\*|.+\.\d+: )', r):
            self.kinds.add('Tuple')
            inner = r[1:-1].strip()
            return ('tuple', [self.operand(x) for x in split_top(inner)] if inner else [])
        if r.startswith('[') and r.endswith(']'):
            if len(split_top(r[1:-1], ';')) > 1:
                raise Unsupported('array repeat expression: ' + r)
            self.kinds.add('Array')
            return ('array', [self.operand(x) for x in split_top(r[1:-1])])
        if re.match(r'^(copy|move|const|no_retag) ', r):
            self.kinds.add('Use')
            return self.operand(r)
        if re.match(r'^[A-Za-z_][\w]*(::[A-Za-z_]\w*)+$', r):
            self.kinds.add('UnitVariant')
            return ('path', r)
        raise Unsupported('rvalue: ' + r)

    # -- statements and terminators
    def assign(self, dst, val):
        m = re.match(r'^_(\d+)$', dst.strip())
        if not m:
            raise Unsupported('assignment to a non-local place: ' + dst)
        k = int(m.group(1))
        if k in self.env:
            raise Unsupported('local _%d assigned twice on the path' % k)
        self.env[k] = val

    def run(self):
        bb, seen = 'bb0', set()
        while True:
            if bb in seen:
                raise Unsupported('loop through ' + bb)
            seen.add(bb)
            blk = self.fn.blocks.get(bb)
            if blk is None or blk['cleanup']:
                raise Unsupported('path enters missing/cleanup block ' + bb)
            if not blk['stmts']:
                raise Unsupported('empty block ' + bb)
            for st in blk['stmts'][:-1]:
                self.statement(st)
            nxt = self.terminator(blk['stmts'][-1])
            if nxt is None:
                self.path = sorted(seen, key=lambda b: int(b[2:]))
                return
            bb = nxt

    def statement(self, st):
        if re.match(r'^Storage(Live|Dead)\(_\d+\)$', st):
            return
        m = re.match(r'^(\S.*?) = (.*)$', st, re.S)
        if not m or re.search(r' -> (\[|bb\d+|unwind)', st):
            raise Unsupported('statement: ' + st)
        self.assign(m.group(1), self.rvalue(m.group(2)))

    def terminator(self, t):
        if t == 'return':
            self.kinds.add('Return')
            if 0 not in self.env:
                raise Unsupported('return without a value in _0')
            self.ret = self.env[0]
            return None
        m = re.match(r'^goto -> (bb\d+)$', t)
        if m:
            self.kinds.add('Goto')
            return m.group(1)
        m = re.match(r'^assert\((.*)\) -> \[success: (bb\d+), unwind[^\]]*\]$', t, re.S)
        if m:
            self.kinds.add('Assert')
            args = split_top(m.group(1))
            c = args[0]
            neg = c.startswith('!')
            v = self.operand(c[1:] if neg else c)
            if v[0] != 'bool':
                raise Unsupported('assert on a non-boolean')
            self.asserts.append(('(not %s)' % v[1] if neg else v[1], args[1] if len(args) > 1 else ''))
            return m.group(2)
        m = re.match(r'^(_\d+) = (.*) -> \[return: (bb\d+), unwind[^\]]*\]$', t, re.S)
        if m:
            self.kinds.add('Call')
            call = m.group(2)
            # callee = text before the first `(` outside <...>
            depth, cut = 0, None
            for i, ch in enumerate(call):
                if ch == '<':
                    depth += 1
                elif ch == '>' and call[i - 1] != '-':
                    depth -= 1
                elif ch == '(' and depth == 0:
                    cut = i
                    break
            if cut is None or not call.endswith(')'):
                raise Unsupported('call syntax: ' + t)
            callee, args = call[:cut], call[cut + 1:-1]
            vals = [self.operand(a) for a in split_top(args)] if args.strip() else []
            dst = int(m.group(1)[1:])
            self.assign(m.group(1), self.calls(callee, vals, self.fn.types.get(dst), self))
            self.trace.append(callee)
            return m.group(3)
        raise Unsupported('terminator: ' + t)


# ----------------------------------------------------------------------------
# solvers

def run_solver(which, path, cap):
    if which == 'z3':
        cmd = [Z3, '-smt2', '-T:%d' % cap, path]
    else:
        with open(path) as f:
            qfbv = '(set-logic QF_BV)' in f.read(4096)
        cmd = [CVC5, '--lang', 'smt2', '--tlimit=%d' % (cap * 1000)] + (['--bitblast=eager'] if qfbv else ['--strings-exp']) + [path]
    t0 = time.time()
    try:
        p = subprocess.run(cmd, stdout=subprocess.PIPE, stderr=subprocess.STDOUT, text=True, timeout=cap + 10)
        out = p.stdout
    except subprocess.TimeoutExpired:
        return 'timeout', '', time.time() - t0
    dt = time.time() - t0
    lines = [l.strip() for l in out.splitlines() if l.strip()]
    if any('(error' in l for l in lines):
        return 'error', out[-600:], dt
    if lines and lines[0] in ('sat', 'unsat'):
        return lines[0], out, dt
    if any(l == 'timeout' or 'interrupted by timeout' in l for l in lines):
        return 'timeout', out[-300:], dt
    return 'unknown', out[-600:], dt


def decide(scratch, name, smt, cap, solvers=('z3', 'cvc5')):
    """One query, each solver in its own process, in parallel.
    -> (verdict, detail, secs, per_solver) with verdict in unsat | sat | inconclusive."""
    d = os.path.join(scratch, 'mirsmt-q')
    os.makedirs(d, exist_ok=True)
    path = os.path.join(d, name + '.smt2')
    with open(path, 'w') as f:
        f.write(smt)
    res = {}

    def one(s):
        res[s] = run_solver(s, path, cap)
    ths = [threading.Thread(target=one, args=(s,)) for s in solvers]
    t0 = time.time()
    for t in ths:
        t.start()
    for t in ths:
        t.join()
    dt = time.time() - t0
    per = {s: {'answer': res[s][0], 'secs': round(res[s][2], 2)} for s in solvers}
    answers = {res[s][0] for s in solvers}
    if answers == {'unsat'}:
        return 'unsat', '', dt, per
    if answers == {'sat'}:
        return 'sat', path, dt, per
    det = '; '.join('%s: %s %s' % (s, res[s][0], res[s][1].strip().replace('\n', ' ')[:200] if res[s][0] not in ('sat', 'unsat') else '') for s in solvers)
    return 'inconclusive', 'solvers did not both decide (%s)' % det, dt, per


def get_values(scratch, name, smt, names, cap):
    """Re-run z3 on a sat query asking for values.  -> {name: int | bool | str}"""
    body = smt.replace('(check-sat)', '(check-sat)\n(get-value (%s))' % ' '.join(names))
    if '(set-option :produce-models true)' not in body:
        body = '(set-option :produce-models true)\n' + body
    path = os.path.join(scratch, 'mirsmt-q', name + '.model.smt2')
    with open(path, 'w') as f:
        f.write(body)
    ans, out, _ = run_solver('z3', path, cap)
    if ans != 'sat':
        return None
    vals = {}
    for m in re.finditer(r'\(\s*([^\s()]+)\s+(#x[0-9a-fA-F]+|#b[01]+|true|false|\d+|\(- \d+\)|"(?:[^"]|"")*")\s*\)', out):
        k, v = m.group(1), m.group(2)
        if v.startswith('#x'):
            vals[k] = int(v[2:], 16)
        elif v.startswith('#b'):
            vals[k] = int(v[2:], 2)
        elif v in ('true', 'false'):
            vals[k] = v == 'true'
        elif v.startswith('"'):
            vals[k] = v[1:-1].replace('""', '"')
        elif v.startswith('('):
            vals[k] = -int(v[3:-1])
        else:
            vals[k] = int(v)
    return vals


# ----------------------------------------------------------------------------
# SMT models of the intrinsics and the oracle (64-bit).  Each model is ONE list of bindings
# (name, sort, expression); the same list is used (a) as a let-chain inside a define-fun, which z3 evaluates on
# concrete words for the comparison with the hardware, and (b) as named constants with defining equations in the
# queries, so that intermediate loop states can be mentioned by lemmas.

B64 = '(_ BitVec 64)'
NONE64 = '#xffffffffffffffff'


def _bit(v, i):
    return '((_ extract %d %d) %s)' % (i, i, v)


def _zx63(b):
    return '((_ zero_extend 63) %s)' % b


def _let_chain(bindings, body):
    return ''.join('(let ((%s %s)) ' % (b[0], b[2]) for b in bindings) + body + ')' * len(bindings)


def pdep_bindings(src, mask, p=''):
    """Intel SDM, PDEP r64a, r64b, r/m64:
         TEMP <- SRC1; MASK <- SRC2; DEST <- 0; m <- 0; k <- 0;
         DO WHILE m < OperandSize
             IF MASK[m] = 1 THEN DEST[m] <- TEMP[k]; k <- k + 1; FI
             m <- m + 1
         OD
       unrolled 64 times; k<m> = value of k before iteration m, d<m> = DEST[m]."""
    b = [(p + 'k0', B64, bvlit(0, 64))]
    for m in range(64):
        b.append((p + 'd%d' % m, '(_ BitVec 1)', '(bvand %s %s)' % (_bit(mask, m), _bit('(bvlshr %s %sk%d)' % (src, p, m), 0))))
        b.append((p + 'k%d' % (m + 1), B64, '(bvadd %sk%d %s)' % (p, m, _zx63(_bit(mask, m)))))
    b.append((p + 'dest', B64, '(concat %s)' % ' '.join(p + 'd%d' % m for m in reversed(range(64)))))
    return b


def scan_bindings(n, rank, p='o_'):
    """Oracle: c = 0; found = false; s = NONE; for i in 0..64 { if !found && n[i] && c == rank { s = i; found = true }; c += n[i] }
       c<i>, nf<i> (= not found), s<i> = state before iteration i; s64 = position of the rank-th set bit or NONE, c64 = popcount."""
    b = [(p + 'c0', B64, bvlit(0, 64)), (p + 'nf0', 'Bool', 'true'), (p + 's0', B64, NONE64)]
    for i in range(64):
        b.append((p + 'q%d' % i, 'Bool', '(and (= %s #b1) (= %sc%d %s))' % (_bit(n, i), p, i, rank)))
        b.append((p + 'hit%d' % i, 'Bool', '(and %snf%d %sq%d)' % (p, i, p, i)))
        b.append((p + 's%d' % (i + 1), B64, '(ite %shit%d %s %ss%d)' % (p, i, bvlit(i, 64), p, i)))
        b.append((p + 'nf%d' % (i + 1), 'Bool', '(and %snf%d (not %sq%d))' % (p, i, p, i)))
        b.append((p + 'c%d' % (i + 1), B64, '(bvadd %sc%d %s)' % (p, i, _zx63(_bit(n, i)))))
    return b


def smt_macros(validation=False):
    out = ['(set-logic QF_BV)']
    # u64::trailing_zeros / leading_zeros / count_ones by their definitions (64 for a zero argument)
    e = bvlit(64, 32)
    for i in reversed(range(64)):
        e = '(ite (= %s #b1) %s %s)' % (_bit('x', i), bvlit(i, 32), e)
    out.append('(define-fun cttz64 ((x %s)) (_ BitVec 32) %s)' % (B64, e))
    e = bvlit(64, 32)
    for i in range(64):
        e = '(ite (= %s #b1) %s %s)' % (_bit('x', i), bvlit(63 - i, 32), e)
    out.append('(define-fun ctlz64 ((x %s)) (_ BitVec 32) %s)' % (B64, e))
    out.append('(define-fun ctpop64 ((x %s)) (_ BitVec 32) (bvadd %s))' % (B64, ' '.join('((_ zero_extend 31) %s)' % _bit('x', i) for i in range(64))))
    if validation:
        out.append('(define-fun pdep64 ((src %s) (mask %s)) %s %s)' % (B64, B64, B64, _let_chain(pdep_bindings('src', 'mask'), 'dest')))
        sb = scan_bindings('n', 'rank', '')
        out.append('(define-fun select_scan64 ((n %s) (rank %s)) %s %s)' % (B64, B64, B64, _let_chain(sb, 's64')))
        out.append('(define-fun popcount_scan64 ((n %s) (rank %s)) %s %s)' % (B64, B64, B64, _let_chain(sb, 'c64')))
    return '\n'.join(out) + '\n'


class Theory:
    """Free constants + named constants with defining equations.  A query may assert any subset of the defining
    equations (fewer hypotheses = a more general statement, so omitting definitions is always sound)."""

    def __init__(self):
        self.order, self.sort, self.expr = [], {}, {}

    def declare(self, name, sort):
        self.order.append(name)
        self.sort[name] = sort

    def define(self, name, sort, expr):
        self.declare(name, sort)
        self.expr[name] = expr

    def add(self, bindings):
        for n, s, e in bindings:
            self.define(n, s, e)

    def query(self, goal, defs=None, assumes=()):
        o = [smt_macros()]
        o += ['(declare-const %s %s)' % (n, self.sort[n]) for n in self.order]
        o += ['(assert (= %s %s))' % (n, self.expr[n]) for n in (self.order if defs is None else defs) if n in self.expr]
        o += ['(assert %s)' % a for a in assumes]
        o.append('(assert (not %s))' % goal)
        o.append('(check-sat)')
        return '\n'.join(o) + '\n'


def make_select_calls(th):
    """Whitelisted intrinsics of the BMI2 select body; PDEP call sites get named loop states p<site>_*."""
    sites = []

    def calls(callee, args, dest_type, ex):
        last = callee.split('::')[-1]

        def u64(v):
            if v[0] != 'bv' or v[1] != 64 or v[2]:
                raise Unsupported('%s on a non-u64 argument' % callee)
            return v[3]
        if last == '_pdep_u64' and re.match(r'^(core|std)::(arch|core_arch)::', callee) and len(args) == 2:
            p = 'p%d_' % len(sites)
            sites.append(p)
            th.define(p + 'src', B64, u64(args[0]))
            th.define(p + 'mask', B64, u64(args[1]))
            th.add(pdep_bindings(p + 'src', p + 'mask', p))
            return BV(64, False, p + 'dest')
        if re.match(r'^(core|std)::num::<impl u64>::(trailing_zeros|leading_zeros|count_ones)$', callee) and len(args) == 1:
            f = {'trailing_zeros': 'cttz64', 'leading_zeros': 'ctlz64', 'count_ones': 'ctpop64'}[last]
            return BV(32, False, '(%s %s)' % (f, u64(args[0])))
        raise Unsupported('call to a function outside the whitelist: ' + callee)
    calls.sites = sites
    return calls


def select_lemmas(p, o, pre):
    """Cut lemmas for `cttz(pdep(1 << rank, n)) == scan`: one loop iteration each, so that no query needs a counting
    argument.  Every lemma is itself proved by both solvers (assuming only lemmas proved before it, and only the listed
    defining equations); a lemma that is not proved is not used.  -> [(name, formula, defs, assumed lemma names)]"""
    L = []
    for i in range(65):
        prev = lambda x: [x % (i - 1)] if i else []
        L.append(('L0_%d' % i, '(bvule %sc%d %s)' % (o, i, bvlit(i, 64)), [o + 'c%d' % i], prev('L0_%d')))
        L.append(('L1_%d' % i, '(= %sk%d %sc%d)' % (p, i, o, i), [p + 'k%d' % i, o + 'c%d' % i, p + 'mask'], prev('L1_%d')))
        L.append(('L2_%d' % i, '(= %snf%d (bvule %sc%d rank))' % (o, i, o, i), [o + 'nf%d' % i, o + 'c%d' % i] + ([o + 'q%d' % (i - 1)] if i else []),
                  prev('L2_%d') + prev('L0_%d')))
    for i in range(64):
        L.append(('L3_%d' % i, '(=> (bvult rank %s) (= (= %sd%d #b1) %shit%d))' % (bvlit(64, 64), p, i, o, i),
                  [p + 'd%d' % i, o + 'hit%d' % i, o + 'q%d' % i, p + 'src', p + 'mask'], ['L1_%d' % i, 'L2_%d' % i]))
    L.append(('R', '(=> %s (bvult rank %s))' % (pre, bvlit(64, 64)), [], ['L0_64']))
    L.append(('B', '(=> %s (not %snf64))' % (pre, o), [], ['L2_64']))
    L.append(('Z', '(=> %s (= ((_ zero_extend 32) (cttz64 %sdest)) %ss64))' % (pre, p, o),
              [p + 'dest'] + [o + x % i for i in range(65) for x in ('s%d', 'nf%d', 'hit%d') if not (i == 64 and x == 'hit%d')],
              ['R', 'B'] + ['L3_%d' % i for i in range(64)]))
    return L


# ----------------------------------------------------------------------------
# hardware validation of the PDEP / cttz models

HW_RS = r'''
use std::arch::x86_64::_pdep_u64;
fn main() {
    if !is_x86_feature_detected!("bmi2") { println!("NOBMI2"); return; }
    let seed: u64 = std::env::args().nth(1).and_then(|s| s.parse().ok()).unwrap_or(0);
    let count: usize = std::env::args().nth(2).and_then(|s| s.parse().ok()).unwrap_or(1024);
    let mut x: u64 = 0x9E37_79B9_7F4A_7C15 ^ seed.wrapping_mul(0xD1B5_4A32_D192_ED03) | 1;
    let mut next = || { x ^= x << 13; x ^= x >> 7; x ^= x << 17; x.wrapping_mul(0x2545_F491_4F6C_DD1D) };
    let mut pairs: Vec<(u64, u64)> = vec![(0, 0), (!0, !0), (!0, 0), (0, !0), (1, !0), (1, 1 << 63), (1 << 63, !0), (!0, 1), (!0, 1 << 63)];
    for i in 0..64 { pairs.push((1u64 << i, !0)); pairs.push((1u64 << i, next())); pairs.push((next(), 1u64 << i)); pairs.push((1, !0u64 << i)); }
    while pairs.len() < count {
        let (a, b, c, d) = (next(), next(), next(), next());
        let r = (next() % 64) as u32;
        match pairs.len() % 5 {
            0 => pairs.push((a, b)),
            1 => pairs.push((a, b & c & d)),
            2 => pairs.push((a, b | c | d)),
            3 => pairs.push((1u64 << r, b)),
            _ => pairs.push((a & c, b.rotate_left(r) & !(d & c))),
        }
    }
    for (s, m) in pairs {
        let p = unsafe { _pdep_u64(s, m) };
        // native scan oracle: position of the set bit of rank r in m, or u64::MAX
        let r = s & 127;
        let (mut seen, mut pos) = (0u64, u64::MAX);
        for i in 0..64 { if (m >> i) & 1 == 1 { if seen == r && pos == u64::MAX { pos = i; } seen += 1; } }
        println!("{:016x} {:016x} {:016x} {} {} {} {} {:016x}", s, m, p, p.trailing_zeros(), m.leading_zeros(), m.count_ones(), r, pos);
    }
}
'''


def cpu_has_bmi2():
    try:
        for l in open('/proc/cpuinfo'):
            if l.startswith('flags'):
                return ' bmi2' in l
    except OSError:
        pass
    return False


def validate_models_on_hardware(scratch, seed, count, cap):
    """The SMT text of pdep64/cttz64 (the same definitions the query uses) is evaluated by z3 on
    concrete words and compared with what the PDEP instruction / u64 methods return on this CPU."""
    if not cpu_has_bmi2():
        return None, 'this CPU does not report BMI2 in /proc/cpuinfo: PDEP model cannot be validated, BMI2 path not covered', 0
    d = os.path.join(scratch, 'mirsmt-hw')
    os.makedirs(d, exist_ok=True)
    open(os.path.join(d, 'hw.rs'), 'w').write(HW_RS)
    env = _cargo_env()
    p = subprocess.run(['rustc', '+nightly', '-O', '-C', 'target-feature=+bmi2', '-o', os.path.join(d, 'hw'), os.path.join(d, 'hw.rs')],
                       env=env, stdout=subprocess.PIPE, stderr=subprocess.STDOUT, text=True)
    if p.returncode != 0:
        return None, 'cannot compile the hardware probe: ' + p.stdout[-800:], 0
    p = subprocess.run([os.path.join(d, 'hw'), str(seed), str(count)], stdout=subprocess.PIPE, stderr=subprocess.STDOUT, text=True, timeout=60)
    if p.returncode != 0 or 'NOBMI2' in p.stdout:
        return None, 'hardware probe: BMI2 not usable on this CPU (%s)' % p.stdout.strip()[:200], 0
    rows = [l.split() for l in p.stdout.splitlines() if l.strip()]
    bad = ['(or']
    for s, m, r, tz, lz, pc, rk, pos in rows:
        bad.append('(not (= (pdep64 #x%s #x%s) #x%s))' % (s, m, r))
        bad.append('(not (= (cttz64 #x%s) %s))' % (r, bvlit(int(tz), 32)))
        bad.append('(not (= (ctlz64 #x%s) %s))' % (m, bvlit(int(lz), 32)))
        bad.append('(not (= (ctpop64 #x%s) %s))' % (m, bvlit(int(pc), 32)))
        bad.append('(not (= (popcount_scan64 #x%s %s) %s))' % (m, bvlit(int(rk), 64), bvlit(int(pc), 64)))
        bad.append('(not (= (select_scan64 #x%s %s) #x%s))' % (m, bvlit(int(rk), 64), pos))
    smt = smt_macros(validation=True) + '(assert ' + '\n'.join(bad) + '))\n(check-sat)\n'
    verdict, det, dt, per = decide(scratch, 'hw-validate', smt, cap, solvers=('z3',))
    if verdict == 'unsat':
        return len(rows), '', dt
    if verdict == 'sat':
        return None, 'the SMT model of PDEP/cttz DISAGREES with the hardware on at least one of %d words: the model is wrong' % len(rows), dt
    return None, 'model validation undecided: ' + det, dt


# ----------------------------------------------------------------------------
# native replay programs

REPLAY_MAIN = r'''
use std::collections::HashSet;
use std::sync::{Arc, Barrier};
use std::time::Instant;

fn scan(n: u64, rank: usize) -> Option<usize> {
    let mut seen = 0usize;
    for i in 0..64 { if (n >> i) & 1 == 1 { if seen == rank { return Some(i); } seen += 1; } }
    None
}

fn num(s: &str) -> u64 { if let Some(h) = s.strip_prefix("0x") { u64::from_str_radix(h, 16).unwrap() } else { s.parse().unwrap() } }

fn main() {
    let a: Vec<String> = std::env::args().collect();
    match a[1].as_str() {
        // select <n> <rank>: exit 0 agrees with the scan, 1 mismatch or panic, 3 precondition false, 4 not the BMI2 build
        "select" => {
            if !cfg!(all(target_arch = "x86_64", target_feature = "bmi2")) { println!("not built with +bmi2"); std::process::exit(4); }
            let (n, rank) = (num(&a[2]), num(&a[3]) as usize);
            let want = match scan(n, rank) { Some(w) => w, None => { println!("rank >= popcount: outside the precondition"); std::process::exit(3); } };
            let got = std::panic::catch_unwind(|| unsafe { simple_sds::bits::select(n, rank) });
            match got {
                Ok(g) if g == want => { println!("select({:#x}, {}) = {} as the scan says", n, rank, g); std::process::exit(0); }
                Ok(g) => { println!("MISMATCH select({:#x}, {}) = {} but bit of rank {} is at {}", n, rank, g, rank, want); std::process::exit(1); }
                Err(_) => { println!("PANIC in select({:#x}, {}) although rank < popcount; expected {}", n, rank, want); std::process::exit(1); }
            }
        }
        // tempname <threads> <calls> <max_rounds> <max_secs> <name_part>: exit 1 on a duplicate path or a path without the name part
        "tempname" => {
            let (t, c, rounds, secs) = (num(&a[2]) as usize, num(&a[3]) as usize, num(&a[4]) as usize, num(&a[5]));
            let part: Arc<String> = Arc::new(a[6].clone());
            let start = Instant::now();
            let mut all: HashSet<String> = HashSet::new();
            let chunk = 250usize;
            let mut done = 0usize;
            while done < rounds && start.elapsed().as_secs() < secs {
                let bar = Arc::new(Barrier::new(t));
                let hs: Vec<_> = (0..t).map(|_| { let bar = bar.clone(); let part = part.clone(); std::thread::spawn(move || {
                    let mut v = Vec::with_capacity(chunk * c);
                    for _ in 0..chunk { bar.wait(); for _ in 0..c { v.push(simple_sds::serialize::temp_file_name(&part)); } }
                    v }) }).collect();
                for h in hs { for p in h.join().unwrap() {
                    let s = p.to_string_lossy().into_owned();
                    if !s.contains(part.as_str()) { println!("MISSING name part {:?} in {:?}", part, s); std::process::exit(1); }
                    if !all.insert(s.clone()) { println!("DUPLICATE path {:?} returned twice ({} threads x {} calls, round <= {})", s, t, c, done + chunk); std::process::exit(1); }
                } }
                done += chunk;
            }
            println!("no duplicate among {} names in {} rounds", all.len(), done);
            std::process::exit(0);
        }
        _ => std::process::exit(2),
    }
}
'''


def build_replay(scratch, bmi2):
    d = os.path.join(scratch, 'mirsmt-replay' + ('-bmi2' if bmi2 else ''))
    binp = os.path.join(d, 'target', 'debug', 'mirsmt-replay')
    if os.path.exists(binp):
        return binp, ''
    os.makedirs(os.path.join(d, 'src'), exist_ok=True)
    open(os.path.join(d, 'Cargo.toml'), 'w').write(
        '[package]\nname = "mirsmt-replay"\nversion = "0.0.0"\nedition = "2021"\n\n[dependencies]\nsimple-sds = { path = "%s", default-features = false }\n\n[workspace]\n' % REPO)
    open(os.path.join(d, 'src', 'main.rs'), 'w').write(REPLAY_MAIN)
    lock = os.path.join(REPO, 'Cargo.lock')
    if os.path.exists(lock):
        shutil.copy(lock, os.path.join(d, 'Cargo.lock'))
    env = _cargo_env('-C target-feature=+bmi2' if bmi2 else None)
    env['RUSTUP_TOOLCHAIN'] = 'stable'
    p = subprocess.run(['cargo', 'build', '--offline', '--target-dir', os.path.join(d, 'target')], cwd=d, env=env,
                       stdout=subprocess.PIPE, stderr=subprocess.STDOUT, text=True)
    if p.returncode != 0 or not os.path.exists(binp):
        return None, p.stdout[-1500:]
    return binp, ''


def _last_line(text):
    lines = [l.strip() for l in (text or '').splitlines() if l.strip()]
    return lines[-1][:400] if lines else ''


def native_select(scratch, n, rank):
    """-> (reproduced: bool | None, text)"""
    if not cpu_has_bmi2():
        return None, 'CPU without BMI2'
    b, err = build_replay(scratch, True)
    if b is None:
        return None, 'replay program does not build: ' + err
    p = subprocess.run([b, 'select', '0x%x' % n, str(rank)], stdout=subprocess.PIPE, stderr=subprocess.STDOUT, text=True, timeout=60,
                       env=dict(os.environ, RUST_BACKTRACE='0'))
    out = _last_line(p.stdout)
    if p.returncode == 1:
        return True, out
    if p.returncode == 0:
        return False, out
    return None, 'exit %d: %s' % (p.returncode, out)


def native_tempname(scratch, threads, calls, rounds, secs, part):
    b, err = build_replay(scratch, False)
    if b is None:
        return None, 'replay program does not build: ' + err
    try:
        p = subprocess.run([b, 'tempname', str(threads), str(calls), str(rounds), str(secs), part], stdout=subprocess.PIPE,
                           stderr=subprocess.STDOUT, text=True, timeout=secs + 60, env=dict(os.environ, RUST_BACKTRACE='0'))
    except subprocess.TimeoutExpired:
        return None, 'stress run timed out'
    out = _last_line(p.stdout)
    if p.returncode == 1:
        return True, out
    if p.returncode == 0:
        return False, out
    return None, 'exit %d: %s' % (p.returncode, out)


def save_replay(prop, instance, body):
    d = os.path.join(VERIF, 'replays', prop)
    os.makedirs(d, exist_ok=True)
    h = hashlib.sha1(json.dumps([instance, body], sort_keys=True, default=str).encode()).hexdigest()[:10]
    p = os.path.join(d, '%s-%s.json' % (instance, h))
    body = dict(body, engine='mirsmt', property=prop, instance=instance, replay_path=p)
    with open(p, 'w') as f:
        json.dump(body, f, indent=1)
    return p


def replay(body):
    """kv replay <file> for engine=mirsmt: re-run the counterexample against the real code."""
    scratch = tempfile.mkdtemp(prefix='kv-replay-', dir=os.environ.get('KV_SCRATCH', '/var/tmp'))
    try:
        i = body['inputs']
        if body.get('kind') == 'select':
            rep, txt = native_select(scratch, int(i['n']), int(i['rank']))
        elif body.get('kind') == 'tempname':
            rep, txt = native_tempname(scratch, int(i['threads']), int(i['calls']), int(i.get('rounds', 20000)), int(i.get('secs', 20)), i.get('name_part', 'x'))
        else:
            log('kv: unknown mirsmt replay kind %r' % body.get('kind'))
            return 2
        log('kv: replay (%s, native, against %s): %s' % (body.get('kind'), REPO, txt))
        if rep:
            log('VIOLATION property=%s replay=%s' % (body['property'], body.get('replay_path', '?')))
            return 1
        if rep is None:
            log('kv: replay could not be run')
            return 2
        return 0
    finally:
        shutil.rmtree(scratch, ignore_errors=True)


# ----------------------------------------------------------------------------
# result helpers

def new_result(instance, desc, shape, functions):
    return {'instance': instance, 'desc': desc, 'shape': shape, 'status': 'ERROR', 'solver_s': 0.0, 'obligations': 0, 'discharged': 0,
            'functions': functions, 'harness_asserts': 0, 'harness_asserts_reachable': 0, 'unwind': 0, 'unwindset': {}, 'stubs': [],
            'models': [], 'covers': [], 'engine': 'mirsmt'}


def find_fn(items, qualified, last, sig=None):
    """Locate a free function robustly: exact (untrimmed) path first, else a unique free fn with that last segment and signature."""
    fns = [i for i in items if i.kind == 'fn']
    c = [i for i in fns if i.name == qualified or i.name == CRATE + '::' + qualified]
    if not c:
        c = [i for i in fns if (i.name == last or i.name.endswith('::' + last)) and '<impl' not in i.name and '{closure' not in i.name
             and (sig is None or sig in i.header)]
    if len(c) != 1:
        raise Unsupported('cannot locate fn %s uniquely in the MIR dump (%d candidates: %s)' % (qualified, len(c), [i.name for i in c][:5]))
    return c[0]


# ----------------------------------------------------------------------------
# C17: bits::select, BMI2 path

def check_select_bmi2(scratch, tier, seed):
    inst = 'c17_select_bmi2'
    cap = 600 if tier == 'thorough' else 60
    cap_direct = 60 if tier == 'thorough' else 20
    r = new_result(inst, 'bits::select BMI2 path (MIR of /repo with +bmi2 -> SMT; PDEP per Intel SDM unrolled 64x): for all n: u64, rank < popcount(n): '
                   'no overflow assert fails and result = position of the rank-th set bit (64-step scan); with E1 (portable == scan) the two paths agree',
                   {'n': 'all u64', 'rank': 'all usize < popcount(n)'}, ['simple_sds::bits::select'])
    out = {'results': [r], 'violations': [], 'inconclusive': []}
    t_all = time.time()

    def fail(msg, status='ERROR'):
        r['status'], r['error'] = status, msg
        out['inconclusive'].append('%s: %s %s' % (inst, status, msg))
        logline(inst, status, time.time() - t_all, msg)
        return out
    th = Theory()
    th.declare('n', B64)
    th.declare('rank', B64)
    calls = make_select_calls(th)
    try:
        mir, cmd, dt = dump_mir(scratch, True)
        r['mir_cmd'] = cmd
        items = split_items(mir)
        item = find_fn(items, 'bits::select', 'select', '(_1: u64, _2: usize) -> usize')
        r['shape']['mir_sha1'] = hashlib.sha1(item.text.encode()).hexdigest()[:12]
        fn = Fn(item)
        if [fn.types.get(p) for p in fn.params] != ['u64', 'usize'] or fn.ret != 'usize':
            raise Unsupported('unexpected signature of bits::select: ' + item.header)
        ex = Exec(fn, alloc_table(mir), calls, {1: BV(64, False, 'n'), 2: BV(64, False, 'rank')})
        ex.run()
        if not calls.sites:
            raise Unsupported('the dumped body of bits::select does not call _pdep_u64: this is not the BMI2 path (calls: %s)' % ex.trace)
        if ex.ret[0] != 'bv' or ex.ret[1] != 64:
            raise Unsupported('return value is not a 64-bit integer')
    except Unsupported as e:
        return fail('not translated: %s' % e)
    r['mir_kinds'] = sorted(ex.kinds)
    r['mir_calls'] = ex.trace
    logline(inst + ':mir', 'SUCCESS', time.time() - t_all, 'path %s; result = %s' % ('->'.join(ex.path), ex.ret[3][:90]))
    nval, err, vdt = validate_models_on_hardware(scratch, seed, 4096, cap)
    r['solver_s'] += round(vdt, 2)
    if nval is None:
        return fail(err)
    r['models'] = ['pdep64 (Intel SDM pseudo-code), cttz64/ctlz64/ctpop64 and the scan oracle: the SMT definitions agree with this CPU / native Rust on %d words (z3 evaluation of the same bindings)' % nval]
    logline(inst + ':hw-model', 'SUCCESS', vdt, 'PDEP/cttz/oracle SMT definitions == hardware on %d words' % nval)

    th.add(scan_bindings('n', 'rank', 'o_'))
    pre = '(bvult rank o_c64)'
    obligations, held = [], [pre]
    for k, (cond, msg) in enumerate(ex.asserts):
        obligations.append(('assert%d' % k, 'MIR assert %s' % msg.strip('"')[:70], '(=> (and %s) %s)' % (' '.join(held), cond)))
        held.append(cond)
    obligations.append(('result', 'result == position of the rank-th set bit', '(=> (and %s) (= %s o_s64))' % (' '.join(held), ex.ret[3])))
    lemmas = select_lemmas(calls.sites[0], 'o_', pre)
    lem_f = {l[0]: l[1] for l in lemmas}
    jobs = [('cover', th.query('(not (and %s))' % ' '.join(held)), cap, ('z3',))]
    jobs += [('direct-' + o[0], th.query(o[2]), cap_direct, ('z3', 'cvc5')) for o in obligations]
    jobs += [('lemma-' + l[0], th.query(l[1], defs=l[2], assumes=[lem_f[a] for a in l[3]]), cap, ('z3', 'cvc5')) for l in lemmas]
    jobs += [('cut-' + o[0], th.query(o[2], assumes=[lem_f[a] for a in ('R', 'B', 'Z')]), cap, ('z3', 'cvc5')) for o in obligations]
    res = {}
    lock = threading.Lock()
    it = iter(jobs)

    def worker():
        while True:
            with lock:
                j = next(it, None)
            if j is None:
                return
            res[j[0]] = decide(scratch, inst + '-' + j[0], j[1], j[2], solvers=j[3])
    t0 = time.time()
    ths = [threading.Thread(target=worker) for _ in range(8)]
    for t in ths:
        t.start()
    for t in ths:
        t.join()
    r['solver_s'] = round(r['solver_s'] + (time.time() - t0), 2)
    nq = len(jobs)
    if res['cover'][0] != 'sat':
        return fail('vacuity check: precondition and path condition not shown satisfiable (%s %s)' % res['cover'][:2])
    r['covers'] = ['rank < popcount(n) and the path to Return is satisfiable']
    bad_lemmas = [l[0] for l in lemmas if res['lemma-' + l[0]][0] != 'unsat']
    lt = sum(res['lemma-' + l[0]][2] for l in lemmas)
    lmax = max(res['lemma-' + l[0]][2] for l in lemmas)
    logline(inst + ':lemmas', 'SUCCESS' if not bad_lemmas else 'ERROR', lt, '%d/%d single-iteration cut lemmas unsat in z3 and cvc5 (slowest %.1fs)%s' % (
        len(lemmas) - len(bad_lemmas), len(lemmas), lmax, (' NOT proved: %s' % bad_lemmas[:6]) if bad_lemmas else ''))
    r['obligations'] = len(obligations)
    r['harness_asserts'] = r['harness_asserts_reachable'] = len(obligations)
    r['queries'] = [{'query': 'lemmas', 'count': len(lemmas), 'not_proved': bad_lemmas, 'solver_s_sum': round(lt, 1)}]
    r['solver_queries'] = nq
    cands = []
    for o in obligations:
        d, c = res['direct-' + o[0]], res['cut-' + o[0]]
        how = None
        if d[0] == 'unsat':
            how = 'direct'
        elif c[0] == 'unsat' and not bad_lemmas:
            how = 'via cut lemmas'
        sat = d if d[0] == 'sat' else (c if c[0] == 'sat' and not bad_lemmas else None)
        r['queries'].append({'query': o[0], 'what': o[1], 'direct': d[3], 'with_lemmas': c[3], 'decided': how or ('sat' if sat else None)})
        txt = o[1] + ' | direct: ' + ' '.join('%s=%s/%.1fs' % (s, d[3][s]['answer'], d[3][s]['secs']) for s in d[3]) + \
            ' | with lemmas: ' + ' '.join('%s=%s/%.1fs' % (s, c[3][s]['answer'], c[3][s]['secs']) for s in c[3])
        if how:
            r['discharged'] += 1
            logline('%s:%s' % (inst, o[0]), 'SUCCESS', min(d[2], c[2]) if d[0] == 'unsat' else c[2], txt)
        elif sat:
            cands.append((o, 'direct-' + o[0] if sat is d else 'cut-' + o[0]))
            logline('%s:%s' % (inst, o[0]), 'FAILED', sat[2], txt)
        else:
            out['inconclusive'].append('%s:%s undecided (%s%s)' % (inst, o[0], txt, '; lemmas not proved: %s' % bad_lemmas[:6] if bad_lemmas else ''))
            logline('%s:%s' % (inst, o[0]), 'ERROR', max(d[2], c[2]), txt)
    if cands:
        o, jn = cands[0]
        smt = [j[1] for j in jobs if j[0] == jn][0]
        vals = get_values(scratch, inst + '-' + jn, smt, ['n', 'rank'], cap)
        if not vals or 'n' not in vals:
            return fail('sat but no model could be extracted for %s' % o[0])
        n, rank = vals['n'], vals['rank']
        rep, txt = native_select(scratch, n, rank)
        r['counterexample'] = {'n': n, 'rank': rank, 'query': o[0], 'native': txt, 'reproduced': rep}
        if rep:
            r['status'] = 'FAILED'
            f = {'description': 'bits::select (BMI2 path) differs from the scan: %s [%s]' % (txt, o[1]), 'function': 'simple_sds::bits::select', 'class': 'assertion'}
            r['error'] = f['description']
            rp = save_replay('C17', inst, {'kind': 'select', 'inputs': {'n': n, 'rank': rank}, 'failed': o[1], 'native': txt,
                                           'how': 'kv replay <this file>: builds a program against /repo with RUSTFLAGS=-C target-feature=+bmi2 and compares bits::select(n, rank) with a scan'})
            out['violations'].append((inst, rp, f))
            logline(inst, 'FAILED', time.time() - t_all, txt)
            return out
        return fail('counterexample n=%#x rank=%d from the solvers did not reproduce natively (%s): encoding or model wrong' % (n, rank, txt), 'NOREPRO')
    if out['inconclusive']:
        r['status'], r['error'] = 'ERROR', '; '.join(out['inconclusive'])[:600]
        logline(inst, 'ERROR', time.time() - t_all, r['error'])
        return out
    r['status'] = 'SUCCESS'
    logline(inst, 'SUCCESS', time.time() - t_all, '%d/%d obligations unsat in z3 and cvc5 (%d solver queries)' % (r['discharged'], r['obligations'], nq))
    return out


# ----------------------------------------------------------------------------
# C20: serialize::temp_file_name

ATOMIC_RE = re.compile(r'^(?:std|core)::sync::atomic::(?:Atomic::<usize>|AtomicUsize)::(\w+)$')
# op -> (number of value operands, returns old value, post-state as a function of (pre, operand))
ATOMIC_OPS = {
    'load': (0, True, lambda p, a: p),
    'store': (1, False, lambda p, a: a),
    'swap': (1, True, lambda p, a: a),
    'fetch_add': (1, True, lambda p, a: '(bvadd %s %s)' % (p, a)),
    'fetch_sub': (1, True, lambda p, a: '(bvsub %s %s)' % (p, a)),
    'fetch_and': (1, True, lambda p, a: '(bvand %s %s)' % (p, a)),
    'fetch_or': (1, True, lambda p, a: '(bvor %s %s)' % (p, a)),
    'fetch_xor': (1, True, lambda p, a: '(bvxor %s %s)' % (p, a)),
    'fetch_nand': (1, True, lambda p, a: '(bvnot (bvand %s %s))' % (p, a)),
    'fetch_max': (1, True, lambda p, a: '(ite (bvuge %s %s) %s %s)' % (p, a, p, a)),
    'fetch_min': (1, True, lambda p, a: '(ite (bvule %s %s) %s %s)' % (p, a, p, a)),
}
OPAQUE_OK = [r'^std::env::temp_dir$', r'^std::process::id$', r'^(std|alloc)::fmt::format$', r'^(std|core)::hint::must_use::<.*>$',
             r'^std::path::PathBuf::push::<.*>$']
PH = '§'   # placeholder prefix for per-call SMT names; replaced when a call is instantiated


class TempNameModel:
    """What was extracted from the MIR of temp_file_name."""

    def __init__(self):
        self.accesses = []      # {'op', 'operand' (term | None), 'ordering', 'n_asserts_before'}
        self.asserts = []       # [(cond, msg)] over PH r<k>
        self.template = None    # [('lit', str) | ('arg', role, index)]
        self.count = None       # term over PH r<k>
        self.notes = []


def extract_temp_name(mir, src_text, src_all):
    items = split_items(mir)
    allocs = alloc_table(mir)
    item = find_fn(items, 'serialize::temp_file_name', 'temp_file_name', '(_1: &str) -> ')
    fn = Fn(item)
    if len(fn.params) != 1 or fn.types.get(1) != '&str':
        raise Unsupported('unexpected signature: ' + item.header)
    counter = [a for a, v in allocs.items() if v[0] == 'static' and v[1].split('::')[-1] == 'TEMP_FILE_COUNTER']
    if len(counter) != 1:
        raise Unsupported('static TEMP_FILE_COUNTER not found exactly once among the allocations of the dump (%s)' % counter)
    # the counter must not be touched by any other item of the crate
    pat = re.compile(r'\b%s\b' % counter[0])
    for it in items:
        if it is item or (it.kind.startswith('static') and it.name.split('::')[-1] == 'TEMP_FILE_COUNTER'):
            continue
        if any(pat.search(l) for l in it.lines):
            raise Unsupported('TEMP_FILE_COUNTER is also accessed by `%s`: the access sequence of temp_file_name alone does not describe the counter' % it.name)
    st = [it for it in items if it.kind.startswith('static') and it.name.split('::')[-1] == 'TEMP_FILE_COUNTER']
    if len(st) != 1 or st[0].kind != 'static' or 'Atomic<usize>' not in st[0].header and 'AtomicUsize' not in st[0].header:
        raise Unsupported('TEMP_FILE_COUNTER is not a plain `static` of type AtomicUsize')
    model = TempNameModel()
    model.mir_sha1 = hashlib.sha1(item.text.encode()).hexdigest()[:12]

    def calls(callee, args, dest_type, ex):
        m = ATOMIC_RE.match(callee)
        if m:
            op = m.group(1)
            if op not in ATOMIC_OPS:
                raise Unsupported('atomic operation `%s` is not modelled' % op)
            nval, ret_old, _ = ATOMIC_OPS[op]
            if len(args) != nval + 2 or args[0][0] != 'static' or args[0][1].split('::')[-1] != 'TEMP_FILE_COUNTER':
                raise Unsupported('atomic access to something other than the static TEMP_FILE_COUNTER: %s' % callee)
            if args[-1][0] != 'path' or not re.search(r'Ordering::(Relaxed|Release|Acquire|AcqRel|SeqCst)$', args[-1][1]):
                raise Unsupported('ordering argument of %s is not a constant' % callee)
            operand = None
            if nval:
                if args[1][0] != 'bv' or args[1][1] != 64:
                    raise Unsupported('operand of %s is not a usize value' % callee)
                operand = args[1][3]
            k = len(model.accesses)
            model.accesses.append({'op': op, 'operand': operand, 'ordering': args[-1][1].split('::')[-1], 'n_asserts_before': len(ex.asserts)})
            return BV(64, False, '%sr%d' % (PH, k)) if ret_old else ('tuple', [])
        for a in args:
            if a[0] == 'static':
                raise Unsupported('the counter is passed to `%s`' % callee)
        m = re.match(r"^core::fmt::rt::Argument::<'_>::new_(\w+)::<(.*)>$", callee)
        if m and len(args) == 1:
            if args[0][0] != 'ref':
                raise Unsupported('format argument is not a reference to a local')
            return ('fmtarg', m.group(1), m.group(2), args[0])
        if re.match(r"^(std|core)::fmt::Arguments::<'_>::new::<\d+, \d+>$", callee) and len(args) == 2:
            if args[0][0] != 'bytes' or args[1][0] != 'ref':
                raise Unsupported('fmt::Arguments::new with a non-constant template')
            arr = ex.env[args[1][1]]
            if arr[0] != 'array' or any(x[0] != 'fmtarg' for x in arr[1]):
                raise Unsupported('fmt::Arguments::new: argument array not understood')
            return ('fmtargs', args[0][1], arr[1])
        if any(re.match(p, callee) for p in OPAQUE_OK):
            return ('opaque', callee, args)
        raise Unsupported('call to a function outside the whitelist: ' + callee)

    ex = Exec(fn, allocs, calls, {1: ('param', 1, '&str')})
    ex.run()
    model.asserts = list(ex.asserts)
    model.mir_kinds = sorted(ex.kinds)
    model.mir_calls = ex.trace
    model.path = ex.path
    # --- which value becomes the file name: _0 must be a PathBuf local that received push(format(args))
    ret_local = None
    for k, v in ex.env.items():
        if k != 0 and v is ex.env[0]:
            ret_local = k
    pushes = [v for v in ex.env.values() if v[0] == 'opaque' and re.match(r'^std::path::PathBuf::push::<', v[1])]
    if ret_local is None or ex.env[0][0] != 'opaque' or len(pushes) != 1:
        raise Unsupported('cannot identify the PathBuf that is returned / the single push onto it')
    push = pushes[0]
    if push[2][0][0] != 'ref' or push[2][0][1] != ret_local:
        raise Unsupported('PathBuf::push does not push onto the returned buffer')
    model.dir_from = ex.env[0][1]
    v = push[2][1]
    while v[0] == 'opaque' and re.match(r'^(std|core)::hint::must_use', v[1]):
        v = v[2][0]
    fmtargs = None
    if v[0] == 'opaque' and re.match(r'^(std|alloc)::fmt::format$', v[1]) and v[2][0][0] == 'fmtargs':
        fmtargs = v[2][0]
    if fmtargs is None:
        raise Unsupported('the pushed component is not format!(..) of a constant template')

    def role(a):
        _, kind, ty, ref = a
        if ref[1] in ex.mut_borrowed:
            raise Unsupported('a formatted local is also mutably borrowed')
        val = ex.env[ref[1]]
        while val[0] == 'ref':
            if val[1] in ex.mut_borrowed:
                raise Unsupported('a formatted local is also mutably borrowed')
            val = ex.env[val[1]]
        if val[0] == 'param':
            return {'role': 'name_part', 'kind': kind, 'type': ty}
        if val[0] == 'bv':
            return {'role': 'int', 'kind': kind, 'type': ty, 'term': val[3], 'width': val[1]}
        if val[0] == 'opaque':
            return {'role': 'opaque', 'kind': kind, 'type': ty, 'from': val[1]}
        raise Unsupported('format argument of unknown origin')
    fargs = [role(a) for a in fmtargs[2]]
    # --- decode the template (core::fmt::Arguments, "placeholders representation")
    t, i, nxt, tpl = fmtargs[1], 0, 0, []
    while True:
        if i >= len(t):
            raise Unsupported('format template not terminated')
        b = t[i]
        i += 1
        if b == 0:
            if i != len(t):
                raise Unsupported('bytes after the end marker of the format template')
            break
        if b < 0x80:
            tpl.append(('lit', t[i:i + b].decode('utf-8')))
            i += b
        elif b == 0x80:
            ln = t[i] | (t[i + 1] << 8)
            tpl.append(('lit', t[i + 2:i + 2 + ln].decode('utf-8')))
            i += 2 + ln
        elif b == 0xC0:
            tpl.append(('arg', nxt))
            nxt += 1
        elif b == 0xC8:
            nxt = t[i] | (t[i + 1] << 8)
            i += 2
            tpl.append(('arg', nxt))
            nxt += 1
        else:
            raise Unsupported('format placeholder with options (byte %#x) is not modelled' % b)
    if any(p[0] == 'arg' and p[1] >= len(fargs) for p in tpl):
        raise Unsupported('format template refers to a missing argument')
    model.template = [p if p[0] == 'lit' else ('arg', fargs[p[1]]) for p in tpl]
    # cross-check with the source text (not deciding; a disagreement is inconclusive)
    m = re.search(r'fn\s+temp_file_name\b.*?\n\}', src_text, re.S)
    lits = re.findall(r'format!\(\s*"((?:[^"\\]|\\.)*)"', m.group(0)) if m else []
    rendered = ''.join(p[1].replace('{', '{{').replace('}', '}}') if p[0] == 'lit' else '{}' for p in tpl)
    if len(lits) == 1 and lits[0] != rendered and '{' in lits[0] and not re.search(r'\{[^}]+\}', lits[0]):
        raise Unsupported('format template decoded from MIR (%r) differs from the literal in the source (%r)' % (rendered, lits[0]))
    model.template_text = rendered
    # format arguments whose value derives from a read of the counter
    model.count_args = []
    for p in model.template:
        if p[0] == 'arg' and p[1]['role'] == 'int' and PH in p[1]['term'] and p[1] not in model.count_args:
            model.count_args.append(p[1])
    # source-level cross-check: the static is named only in its definition and inside temp_file_name
    body = m.group(0) if m else ''
    total = len(re.findall(r'\bTEMP_FILE_COUNTER\b', src_all))
    if not body or total != 1 + len(re.findall(r'\bTEMP_FILE_COUNTER\b', body)):
        raise Unsupported('source cross-check: TEMP_FILE_COUNTER is named outside its definition and temp_file_name (%d occurrences in src/)' % total)
    return model


def smt_race(model, T, C):
    """T threads x C calls of the extracted access sequence under sequential consistency; negated claim:
    two calls that both return put the same count into their names."""
    K = len(model.accesses)
    N = T * C * K
    tb = max(1, (max(N, 1)).bit_length() + 1)
    B = '(_ BitVec 64)'
    o = ['(set-logic QF_BV)', '(declare-const init %s)' % B]
    calls = [(t, j) for t in range(T) for j in range(C)]
    sid = {}
    for (t, j) in calls:
        for k in range(K):
            sid[(t, j, k)] = len(sid)
    for s in range(N):
        o.append('(declare-const ts%d (_ BitVec %d))' % (s, tb))
        o.append('(declare-const pre%d %s)' % (s, B))
        o.append('(assert (bvult ts%d %s))' % (s, bvlit(N, tb)))
    for k in range(N + 1):
        o.append('(declare-const M%d %s)' % (k, B))
    o.append('(assert (= M0 init))')
    if N > 1:
        o.append('(assert (distinct %s))' % ' '.join('ts%d' % s for s in range(N)))
    # program order inside a thread
    for t in range(T):
        seq = [sid[(t, j, k)] for j in range(C) for k in range(K)]
        for a, b in zip(seq, seq[1:]):
            o.append('(assert (bvult ts%d ts%d))' % (a, b))

    def inst(term, t, j):
        return re.sub(PH + r'r(\d+)', lambda m: 'pre%d' % sid[(t, j, int(m.group(1)))], term)
    rets, counts = {}, {}
    for (t, j) in calls:
        prev = 'ret_%d_%d' % (t, j - 1) if j > 0 else 'true'
        conds = [inst(c, t, j) for c, _ in model.asserts]
        for k, a in enumerate(model.accesses):
            s = sid[(t, j, k)]
            act = '(and %s)' % ' '.join([prev] + conds[:a['n_asserts_before']]) if (conds[:a['n_asserts_before']] or prev != 'true') else 'true'
            post = ATOMIC_OPS[a['op']][2]('pre%d' % s, inst(a['operand'], t, j) if a['operand'] else None)
            o.append('(define-fun post%d () %s (ite %s %s pre%d))' % (s, B, act, post, s))
        o.append('(define-fun ret_%d_%d () Bool (and %s))' % (t, j, ' '.join([prev] + conds + ['true'])))
        rets[(t, j)] = 'ret_%d_%d' % (t, j)
        counts[(t, j)] = [inst(a['term'], t, j) for a in model.count_args]
    for s in range(N):
        for k in range(N):
            o.append('(assert (=> (= ts%d %s) (and (= pre%d M%d) (= M%d post%d))))' % (s, bvlit(k, tb), s, k, k + 1, s))
    for k in range(N):
        o.append('(assert (or %s))' % ' '.join('(= ts%d %s)' % (s, bvlit(k, tb)) for s in range(N)))
    clash = []
    for x in range(len(calls)):
        for y in range(x + 1, len(calls)):
            a, b = calls[x], calls[y]
            same = ' '.join('(= %s %s)' % (p, q) for p, q in zip(counts[a], counts[b])) or 'true'
            o.append('(define-fun clash_%d_%d_%d_%d () Bool (and %s %s %s))' % (a + b + (rets[a], rets[b], same)))
            clash.append('clash_%d_%d_%d_%d' % (a + b))
    o.append('(assert (or %s))' % ' '.join(clash + ['false']))
    o.append('(check-sat)')
    names = ['init'] + ['ts%d' % s for s in range(N)] + ['pre%d' % s for s in range(N)] + ['post%d' % s for s in range(N)] + clash
    return '\n'.join(o) + '\n', names, sid


def smt_quote(s):
    out = []
    for ch in s:
        if ch == '"':
            out.append('""')
        elif 32 <= ord(ch) < 127 and ch != '\\':
            out.append(ch)
        else:
            out.append('\\u{%x}' % ord(ch))
    return '"' + ''.join(out) + '"'


def smt_names(model):
    """String obligations over the extracted template.  Two calls a, b; every argument other than the count is an
    arbitrary string per call (so the claim does not depend on equal name parts or on the pid); the count renders as
    1..=20 decimal digits and different counts render differently; PathBuf::push yields <anything> ++ component."""
    decl = ['(set-logic ALL)']
    exprs = {}
    nparts = {}
    for c in 'ab':
        decl.append('(declare-const dir_%s String)' % c)
        parts = ['dir_%s' % c]
        n_np = 0
        for idx, p in enumerate(model.template):
            if p[0] == 'lit':
                parts.append(smt_quote(p[1]))
                continue
            a = p[1]
            if a['role'] == 'int' and PH in a['term']:
                v = 'cnt%d_%s' % (model.count_args.index(a), c)
                if v not in decl[-1] and not any(('(declare-const %s ' % v) in d for d in decl):
                    decl.append('(declare-const %s String)' % v)
                    decl.append('(assert (str.in_re %s (re.+ (re.range "0" "9"))))' % v)
                    decl.append('(assert (<= (str.len %s) 20))' % v)
            elif a['role'] == 'name_part':
                v = 'part_%s' % c
                if not any(('(declare-const %s ' % v) in d for d in decl):
                    decl.append('(declare-const %s String)' % v)
                n_np += 1
            else:
                v = 'arg%d_%s' % (idx, c)
                decl.append('(declare-const %s String)' % v)
            parts.append(v)
        exprs[c] = '(str.++ %s)' % ' '.join(parts + ['""'])
        nparts[c] = n_np
    ncnt = len(model.count_args)
    differ = '(or %s)' % ' '.join(['(not (= cnt%d_a cnt%d_b))' % (i, i) for i in range(ncnt)] + ['false'])
    inj = '\n'.join(decl) + '\n(assert %s)\n(assert (= %s %s))\n(check-sat)\n' % (differ, exprs['a'], exprs['b'])
    if not any('(declare-const part_a ' in d for d in decl):
        decl.append('(declare-const part_a String)')
    cont = '\n'.join(decl) + '\n(assert (not (str.contains %s part_a)))\n(check-sat)\n' % exprs['a']
    return inj, cont


LEMMA_DEC = '''(set-logic ALL)
(declare-const c1 Int)
(declare-const c2 Int)
(assert (and (<= 0 c1) (< c1 18446744073709551616) (<= 0 c2) (< c2 18446744073709551616)))
(assert (or (and (not (= c1 c2)) (= (str.from_int c1) (str.from_int c2)))
            (not (str.in_re (str.from_int c1) (re.+ (re.range "0" "9"))))
            (> (str.len (str.from_int c1)) 20)))
(check-sat)
'''


def decode_schedule(model, vals, T, C, sid):
    steps = []
    for (t, j, k), s in sid.items():
        a = model.accesses[k]
        steps.append({'time': vals.get('ts%d' % s), 'thread': t, 'call': j,
                      'access': '%s(%s%s)' % (a['op'], (a['operand'].replace(PH, '') + ', ') if a['operand'] else '', a['ordering']),
                      'reads': '%#x' % vals.get('pre%d' % s, 0), 'leaves': '%#x' % vals.get('post%d' % s, 0)})
    steps.sort(key=lambda x: x['time'])
    clash = [k for k, v in vals.items() if k.startswith('clash_') and v is True]
    return {'initial_counter': '%#x' % vals.get('init', 0), 'steps': steps,
            'colliding_calls': [[int(x) for x in c.split('_')[1:]] for c in clash][:3]}


def check_temp_name(scratch, tier, seed):
    cap = 600 if tier == 'thorough' else 60
    fnname = 'simple_sds::serialize::temp_file_name'
    bounds = [(3, 2)] + ([(4, 3)] if tier == 'thorough' else [])
    out = {'results': [], 'violations': [], 'inconclusive': []}
    t_all = time.time()
    rx = new_result('c20_extract', 'MIR of serialize::temp_file_name -> ordered accesses to static TEMP_FILE_COUNTER, value flowing into the name, format template',
                    {}, [fnname])
    out['results'].append(rx)
    try:
        mir, cmd, dt = dump_mir(scratch, False)
        rx['mir_cmd'] = cmd
        sdir = os.path.join(scratch, 'mirsmt-src', 'src')
        src = open(os.path.join(sdir, 'serialize.rs')).read()
        src_all = ''.join(open(os.path.join(dp, f), errors='replace').read() for dp, _, fs in os.walk(sdir) for f in sorted(fs) if f.endswith('.rs'))
        model = extract_temp_name(mir, src, src_all)
    except Unsupported as e:
        rx['error'] = 'not translated: %s' % e
        out['inconclusive'].append('c20_extract: ERROR ' + rx['error'])
        logline('c20_extract', 'ERROR', time.time() - t_all, rx['error'])
        return out
    acc_txt = ['%s(%s%s)' % (a['op'], (a['operand'].replace(PH, '') + ', ') if a['operand'] else '', a['ordering']) for a in model.accesses]
    tpl_txt = ''.join(p[1] if p[0] == 'lit' else '{%s}' % (p[1]['role'] if not (p[1]['role'] == 'int' and PH in p[1].get('term', '')) else 'count=' + p[1]['term'].replace(PH, ''))
                      for p in model.template)
    out['results'].remove(rx)     # the extraction is not a solver query; it is reported only when it fails
    extracted = {'mir_sha1': model.mir_sha1, 'mir_cmd': cmd, 'accesses': acc_txt, 'template': tpl_txt, 'asserts_on_path': len(model.asserts),
                 'mir_kinds': model.mir_kinds, 'mir_calls': model.mir_calls}
    logline('c20_extract', 'SUCCESS', time.time() - t_all, 'accesses=%s template="%s"' % (acc_txt, tpl_txt))

    jobs = []
    for (T, C) in bounds:
        name = 'c20_race_T%d_C%d' % (T, C)
        r = new_result(name, '%d threads x %d calls, each call = extracted sequence %s as atomic steps; symbolic total order consistent with program order, '
                       'sequentially consistent counter (usize, wrapping, symbolic initial value): the counts put into the names of any two returning calls differ'
                       % (T, C, acc_txt), {'threads': T, 'calls_per_thread': C, 'accesses_per_call': len(model.accesses), 'counter': 'BV64, symbolic initial value'}, [fnname])
        out['results'].append(r)
        smt, names, sid = smt_race(model, T, C)
        jobs.append((name, r, smt, ('race', T, C, names, sid)))
    inj, cont = smt_names(model)
    rn = new_result('c20_name_injective', 'strings over the extracted template "%s": path = <any prefix> ++ name; two calls with different counts (each 1..=20 decimal digits) '
                    'and arbitrary other arguments never yield the same path' % tpl_txt, {'template': tpl_txt}, [fnname])
    rc = new_result('c20_name_contains_part', 'strings over the extracted template "%s": the returned path contains the caller\'s name part, for every string' % tpl_txt,
                    {'template': tpl_txt}, [fnname])
    rl = new_result('c20_lemma_decimal', 'lemma (source independent): str.from_int on [0, 2^64) is injective and yields 1..=20 decimal digits', {}, [])
    out['results'] += [rn, rc, rl]
    jobs += [(rn['instance'], rn, inj, ('names',)), (rc['instance'], rc, cont, ('names',)), (rl['instance'], rl, LEMMA_DEC, ('lemma',))]
    if not model.count_args:
        # nothing to be injective in: the string query would be vacuous
        jobs = [j for j in jobs if j[1] is not rn]
        rn.update(status='ERROR', error='no value derived from the counter flows into the formatted name: injectivity in the count cannot be stated (see the race obligation)')
        out['inconclusive'].append('c20_name_injective: ' + rn['error'])
        logline(rn['instance'], 'ERROR', 0, rn['error'])
    verdicts = {}

    def runj(j):
        verdicts[j[0]] = decide(scratch, j[0], j[2], cap, solvers=('z3',) if j[3][0] == 'lemma' else ('z3', 'cvc5'))
    ths = [threading.Thread(target=runj, args=(j,)) for j in jobs]
    for t in ths:
        t.start()
    for t in ths:
        t.join()
    need_native = []
    for name, r, smt, info in jobs:
        v, det, dt, per = verdicts[name]
        r['solver_s'] = round(dt, 2)
        if info[0] != 'lemma':
            r['extracted'] = extracted
            r['shape'] = dict(r['shape'], mir_sha1=model.mir_sha1, accesses=acc_txt, template=tpl_txt)
        r['obligations'] = r['harness_asserts'] = r['harness_asserts_reachable'] = 1
        r['solvers'] = per
        if v == 'unsat':
            r['status'], r['discharged'] = 'SUCCESS', 1
        elif v == 'sat':
            r['status'] = 'FAILED'
            need_native.append((name, r, smt, info))
        else:
            r['status'] = 'TIMEOUT' if 'timeout' in det else 'ERROR'
            r['error'] = det
            out['inconclusive'].append('%s: %s' % (name, det))
        logline(name, r['status'], dt, ' '.join('%s=%s/%.1fs' % (s, per[s]['answer'], per[s]['secs']) for s in per))
    if need_native:
        T, C = bounds[0]
        name, r, smt, info = need_native[0]
        cex = {}
        if info[0] == 'race':
            T, C = info[1], info[2]
            vals = get_values(scratch, name, smt, info[3], cap)
            if vals:
                cex = decode_schedule(model, vals, T, C, info[4])
        elif info[0] == 'names':
            vals = get_values(scratch, name, smt, re.findall(r'\(declare-const (\S+) String\)', smt), cap)
            cex = {'strings': vals or {}}
        part = 'x'
        rep, txt = native_tempname(scratch, T, C, 20000, 20, part)
        for (nm, rr, _, _) in need_native:
            rr['counterexample'] = cex if rr is r else rr.get('counterexample')
            rr['native'] = {'reproduced': rep, 'output': txt}
        if rep:
            f = {'description': 'temp_file_name: %s [solver schedule/strings in the replay file; obligation %s]' % (txt, name), 'function': fnname, 'class': 'assertion'}
            for (nm, rr, _, _) in need_native:
                rr['error'] = f['description']
            rp = save_replay('C20', name, {'kind': 'tempname', 'inputs': {'threads': T, 'calls': C, 'rounds': 20000, 'secs': 20, 'name_part': part},
                                           'accesses': acc_txt, 'template': tpl_txt, 'solver_counterexample': cex, 'native': txt,
                                           'how': 'kv replay <this file>: builds a program against /repo that releases <threads> threads from a barrier, each calling '
                                                  'serialize::temp_file_name <calls> times per round, and looks for a path returned twice'})
            out['violations'].append((name, rp, f))
            logline(name + ':native', 'FAILED', time.time() - t_all, txt)
        else:
            for (nm, rr, _, _) in need_native:
                rr['status'] = 'NOREPRO'
                rr['error'] = 'solvers found a counterexample (%s) but the native stress run did not show it: %s' % (json.dumps(cex)[:300], txt)
                out['inconclusive'].append('%s: %s' % (nm, rr['error']))
            logline(name + ':native', 'NOREPRO', time.time() - t_all, txt)
    return out
