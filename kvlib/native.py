"""Native helpers built from /repo's current tree (values the SAT back end cannot compute)."""
import os, shutil, subprocess, tempfile, atexit

_cache = {}
_dir = None


def _helper():
    global _dir
    if _dir is None:
        from kvlib import main
        _dir = tempfile.mkdtemp(prefix='kv-native-', dir=os.environ.get('KV_SCRATCH', '/var/tmp'))
        atexit.register(lambda: shutil.rmtree(_dir, ignore_errors=True))
        h = os.path.join(_dir, 'h')
        shutil.copytree(os.path.join(main.VERIF, 'harness'), h)
        ct = open(os.path.join(h, 'Cargo.toml')).read().replace('path = "/repo"', 'path = "%s"' % main.REPO)
        open(os.path.join(h, 'Cargo.toml'), 'w').write(ct)
        open(os.path.join(h, 'src/instances.rs'), 'w').write('pub fn run_instance(_n: &str) -> bool { false }\n')
        mods = sorted(f[:-3] for f in os.listdir(os.path.join(h, 'src')) if f.endswith('.rs') and f not in ('lib.rs', 'instances.rs', 'mods.rs'))
        open(os.path.join(h, 'src/mods.rs'), 'w').write(''.join('pub mod %s;\n' % m for m in mods))
        if os.path.exists(os.path.join(main.REPO, 'Cargo.lock')):
            shutil.copy(os.path.join(main.REPO, 'Cargo.lock'), os.path.join(h, 'Cargo.lock'))
        env = dict(os.environ, CARGO_NET_OFFLINE='true', RUSTUP_TOOLCHAIN='stable', RUSTFLAGS='--cfg simple_sds_verif')
        p = subprocess.run(['cargo', 'build', '--offline', '--release', '--bin', 'sparams', '--target-dir', os.path.join(_dir, 't')],
                           cwd=h, env=env, stdout=subprocess.PIPE, stderr=subprocess.STDOUT, text=True)
        if p.returncode != 0:
            raise RuntimeError('native helper does not build against the current tree:\n' + p.stdout[-3000:])
    return os.path.join(_dir, 't', 'release', 'sparams')


def sparse_width(n, m, multiset=False):
    """Low-part width the real parameter rule of /repo picks for (universe n, m ones)."""
    key = (n, m, bool(multiset))
    if key not in _cache:
        out = subprocess.run([_helper(), str(n), str(m), '1' if multiset else '0'], stdout=subprocess.PIPE, text=True, check=True).stdout.split()
        w = int(out[0])
        if not 1 <= w <= 64:
            raise RuntimeError('could not determine the sparse low width for %r (got %d)' % (key, w))
        _cache[key] = w
    return _cache[key]
