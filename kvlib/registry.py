"""Instance registry: which harness templates run at which concrete shapes.

An instance = one #[kani::proof] wrapper generated into the scratch harness
crate: a call expression with concrete shape arguments; everything else in the
template is symbolic.  `tier='quick'` instances run in both tiers.
"""
import importlib

_SEED = 0
_INSTANCES = []
_EXTRA = {}
_PRE = {}


class Inst:
    def __init__(self, props, name, call, tier='quick', unwind=2, unwindset=None, stubs=(), models=(),
                 cap=300, cap_thorough=1800, mem=4, desc='', shape=None, role=None, weight=1,
                 allow_uncovered=False, no_asserts_ok=False, sat='cadical', fs=None):
        self.fs = fs
        self.props = props if isinstance(props, (list, tuple)) else [props]
        self.name, self.call, self.tier = name, call, tier
        self.unwind, self.unwindset = unwind, dict(unwindset or {})
        self.stubs, self.models = list(stubs), list(models)
        self.cap, self.cap_thorough, self.mem = cap, cap_thorough, mem
        self.desc, self.shape, self.role, self.weight = desc, shape or {}, role, weight
        self.allow_uncovered, self.no_asserts_ok, self.sat = allow_uncovered, no_asserts_ok, sat


def inst(*a, **k):
    i = Inst(*a, **k)
    _INSTANCES.append(i)
    return i


def set_seed(s):
    global _SEED
    _SEED = s


def seed():
    return _SEED


def extra(prop, assumptions=None, coverage=None, options=None):
    e = _EXTRA.setdefault(prop, {'assumptions': [], 'coverage': {}, 'options': {}})
    e['options'].update(options or {})
    e['assumptions'].extend(assumptions or [])
    e['coverage'].update(coverage or {})


def prop_extra(prop):
    import copy
    return copy.deepcopy(_EXTRA.get(prop, {'assumptions': [], 'coverage': {}, 'options': {}}))


def pre_check(prop, fn):
    _PRE.setdefault(prop, []).append(fn)


def pre_checks(prop):
    all_instances()
    return _PRE.get(prop, [])


def replay_other(body):
    all_instances()
    mod = importlib.import_module('kvlib.' + body['engine'])
    return mod.replay(body)


# named stub sets: (original, replacement) pairs, see harness/src/stubs.rs
STUBS = {}


def stubset(name, pairs):
    STUBS[name] = pairs


stubset('vec_resize', [('std::vec::Vec::resize', 'stubs::vec_resize_nogrow')])
stubset('vec_push', [('std::vec::Vec::push', 'stubs::vec_push_nogrow')])
stubset('vec_reserve', [('std::vec::Vec::reserve', 'stubs::vec_reserve_nogrow')])


stubset('rawvec_fixed', [('simple_sds::raw_vector::RawVector::with_capacity', 'stubs::rawvec_with_capacity_fixed'),
                         ('simple_sds::raw_vector::RawVector::new', 'stubs::rawvec_new_fixed')])
stubset('rawvec_reserve', [('simple_sds::raw_vector::RawVector::reserve', 'stubs::rawvec_reserve_fixed')])


stubset('force_long', [('simple_sds::bits::bit_len', 'stubs::bit_len_force_long')])


stubset('utf8', [('std::string::String::from_utf8', 'stubs::string_from_utf8_ascii'), ('std::str::from_utf8', 'stubs::str_from_utf8_ascii')])


stubset('bvspec', [
    ('<simple_sds::bit_vector::BitVector as simple_sds::ops::Rank>::rank', 'stubs_bv::bv_rank'),
    ('<simple_sds::bit_vector::BitVector as simple_sds::ops::Select>::select', 'stubs_bv::bv_select'),
    ('<simple_sds::bit_vector::BitVector as simple_sds::ops::SelectZero>::select_zero', 'stubs_bv::bv_select_zero'),
    ('<simple_sds::bit_vector::BitVector as simple_sds::ops::Rank>::enable_rank', 'stubs_bv::bv_enable_rank'),
    ('<simple_sds::bit_vector::BitVector as simple_sds::ops::Select>::enable_select', 'stubs_bv::bv_enable_select'),
    ('<simple_sds::bit_vector::BitVector as simple_sds::ops::SelectZero>::enable_select_zero', 'stubs_bv::bv_enable_select_zero'),
    ('<simple_sds::bit_vector::BitVector as simple_sds::ops::PredSucc>::enable_pred_succ', 'stubs_bv::bv_enable_pred_succ'),
])


stubset('nofmt', [('std::fmt::format', 'stubs::fmt_format_empty')])


def expand_stubs(names):
    out = []
    for n in names:
        if n in STUBS:
            out.extend(STUBS[n])
        else:
            a, b = n.split('=>')
            out.append((a.strip(), b.strip()))
    return out


_loaded = False
_FINAL = []


def finalizer(f):
    _FINAL.append(f)


def all_instances():
    global _loaded
    if not _loaded:
        _loaded = True
        import glob, os
        for f in sorted(glob.glob(os.path.join(os.path.dirname(os.path.abspath(__file__)), 'props', '[cz]*.py'))):
            importlib.import_module('kvlib.props.' + os.path.basename(f)[:-3])
        for f in _FINAL:
            f(_INSTANCES)
    return _INSTANCES
