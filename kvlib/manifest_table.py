SETUP = 'bin/kv selfcheck'
HOOKS = {
    'guard': 'simple_sds_verif',
    'enable': 'RUSTFLAGS="--cfg simple_sds_verif" (set by bin/kv for the harness crate and its path dependency /repo)',
    'baseline_off_cmd': 'cd /repo && cargo test --workspace --no-fail-fast --offline',
    'source_commits': [],
    'add_only': True,
}
ENGINES = [
    {'name': 'kv-kani-cbmc', 'path': 'bin/kv', 'serves_properties': [],
     'kind_free_text': 'Kani 0.68 as compiler of /repo + harness crate to GOTO programs; own driver for goto-cc/goto-instrument/CBMC 6.11 (CaDiCaL); native replay of counterexamples'},
    {'name': 'mirsmt', 'path': 'kvlib/mirsmt.py', 'serves_properties': ['C17', 'C20'],
     'kind_free_text': 'MIR (rustc nightly -Zunpretty=mir) -> SMT-LIB2 translator for straight-line kernels Kani cannot compile (BMI2 select) and atomic-access extraction; z3 + cvc5 must agree'},
]
NOTES = 'All checks: bin/kv check <ID> --tier quick|thorough. Exit 0 pass, 1 reproduced violation, 2 inconclusive (timeout/OOM/compile error/non-reproducing counterexample). Scratch under /var/tmp is removed at exit.'
NOT_APPLICABLE = {}
HOOKS['source_commits'] = ['5ced590', '5aaf928']

_T = 'Bounded model checking of the compiled crate (Kani front end, CBMC/CaDiCaL back end): each instance fixes a concrete shape (lengths, widths, counts) and the solver decides the assertions for ALL values of the symbolic contents and arguments; unwinding assertions guarantee the loop bounds suffice; counterexamples are replayed natively against /repo before being reported. '
_N = 'Trusts Kani 0.68 codegen, CBMC 6.11, CaDiCaL; stubs and assumptions are listed in the evidence file; shapes outside the listed instances are not claimed.'
CHECKS = {
    'C01': {'text': _T + 'Plain bitvector: access/count for up to 130 bits, rank with the real RankSupport up to 1536 bits (index over all usize), select/select_zero/select_iter/predecessor/successor with the real SelectSupport (both superblock regimes) on vectors up to 12 bits.', 'note': _N + ' Select-type queries beyond 12 bits and more than one superblock are outside the bound.'},
    'C02': {'text': _T + 'Elias-Fano vector built with the real builder from symbolic positions (universes from 0 to 2^64-1, up to 20 ones), every query with arguments over all usize, against the sorted position list.', 'note': _N + ' Embedded bitvector answered by specification stubs (verified separately in C01); parameter rule evaluated natively.'},
    'C03': {'text': _T + 'Run-length vector assembled from document-conforming parts (hook), symbolic run payloads in concrete code-length classes incl. values >= 2^63 and a second block; every query over all usize against the run list.', 'note': _N + ' Builder/conversion construction is checked in C16/C11; more than 2 blocks outside the bound.'},
    'C04': {'text': _T + 'Wavelet matrix / core assembled from document-defined parts (hooks) for symbolic items (len <= 6, width <= 4): access, rank, select, inverse_select, contains, value iterators, predecessor/successor, core map_down/map_down_with/map_up_with with (index, rank, value) over all usize/u64.', 'note': _N + ' WaveletMatrix::from(Vec<T>) construction is outside the claim (does not finish under CBMC).'},
    'C05': {'text': _T + 'Inductive step: one arbitrary operation with arbitrary arguments from an arbitrary valid RawVector (every length 0..=192) / IntVector (every width 1..=64) state, compared word for word with a bit-sequence model together with the representation invariant; construction-route independence of ==, bytes and count_ones.', 'note': _N},
    'C06': {'text': _T + 'serialize -> exact size -> load consumes exactly that -> equal value, for scalars, vectors, bytes, strings, options, raw/int vectors and concatenations, contents symbolic; size_by_params as full-width arithmetic.', 'note': _N + ' 256-byte buffers; ASCII strings.'},
    'C09': {'text': _T + 'Out-of-range and extreme arguments (all usize) on plain bitvectors, their iterators (nth/nth_back after a consumed prefix), AccessIter, constructors and RLBuilder::try_set; the C02/C03/C04/C15 instances range over all usize as well.', 'note': _N},
    'C14': {'text': _T + 'Every strict byte prefix (symbolic cut) of the serialization of each type/shape fails to load with Err; skip_option; failing sinks and buffered writers with a symbolic write budget.', 'note': _N},
    'C15': {'text': _T + 'Multiset Elias-Fano vectors (duplicates, overfull) from symbolic non-decreasing values: count/select/rank/get/pred/succ/iterators with arguments over all usize; try_from_iter acceptance and universe.', 'note': _N + ' Embedded bitvector answered by specification stubs.'},
    'C17': {
        'text': 'Bounded model checking of the real bits:: functions at full 64-bit width: every (background, offset<192, width, value) for write_int/read_int, every (word, rank) for select, every argument in the documented domain for the masks/bit_len/reverse_low/rounding helpers. The solver decides all values inside these bounds; only array length (3 words) and the symbolic-divisor width of div_round_up are bounded.',
        'note': 'Trusts Kani codegen + CBMC + CaDiCaL; x86_64; BMI2 select path via the MIR->SMT engine with a PDEP model validated against the hardware instruction.',
    },
}
