SETUP = 'bin/kv selfcheck'
HOOKS = {
    'guard': 'simple_sds_verif',
    'enable': 'RUSTFLAGS="--cfg simple_sds_verif" (set by bin/kv for the harness crate and its path dependency /repo)',
    'baseline_off_cmd': 'cd /repo && cargo test --workspace --no-fail-fast --offline',
    'source_commits': [],
    'add_only': True,
}
ENGINES = [
    {'name': 'kv-kani-cbmc', 'path': 'bin/kv', 'serves_properties': [],
     'kind_free_text': 'Kani 0.68 as compiler of /repo + harness crate to GOTO programs; own driver for goto-cc/goto-instrument/CBMC 6.11 (CaDiCaL); native replay of counterexamples'},
    {'name': 'mirsmt', 'path': 'kvlib/mirsmt.py', 'serves_properties': ['C17', 'C20'],
     'kind_free_text': 'MIR (rustc nightly -Zunpretty=mir) -> SMT-LIB2 translator for straight-line kernels Kani cannot compile (BMI2 select) and atomic-access extraction; z3 + cvc5 must agree'},
]
NOTES = 'All checks: bin/kv check <ID> --tier quick|thorough. Exit 0 pass, 1 reproduced violation, 2 inconclusive (timeout/OOM/compile error/non-reproducing counterexample). Scratch under /var/tmp is removed at exit.'
NOT_APPLICABLE = {}
CHECKS = {
    'C17': {
        'text': 'Bounded model checking of the real bits:: functions at full 64-bit width: every (background, offset<192, width, value) for write_int/read_int, every (word, rank) for select, every argument in the documented domain for the masks/bit_len/reverse_low/rounding helpers. The solver decides all values inside these bounds; only array length (3 words) and the symbolic-divisor width of div_round_up are bounded.',
        'note': 'Trusts Kani codegen + CBMC + CaDiCaL; x86_64; BMI2 select path via the MIR->SMT engine with a PDEP model validated against the hardware instruction.',
    },
}
