from kvlib.registry import inst, extra

P = 'C03'
RLQ = ['access', 'rank', 'select', 'select_zero', 'pred', 'succ', 'run_iter', 'one_iter', 'zero_iter']


def layout(units):
    nd, blocks = 0, 0
    for (g, l) in units:
        if nd + g + l > blocks * 64:
            nd = blocks * 64
            blocks += 1
        nd += g + l
    return blocks, nd


def rl_uw(units):
    blocks, nd = layout(units)
    r = len(units)
    return {
        r'c03::any_rl$#0': 24, r'c03::any_rl$#1': 24, r'c03::any_rl$#2': r + 2, r'c03::any_rl$#3': 2 * blocks + 2, r'c03::any_rl$#4': nd + 2,
        r'c03::Runs::': 10, r'c03::queries$': 10, r'doc::bit_len$': 66,
        r'IntVector::with_len$': nd + 2, r'Vec::<u64>::extend_with$': (nd * 4 + 63) // 64 + 3,
        r'RLVector::decode$': 24, r'RLVector::block_for': 6,
        r'SampleIndex::new': blocks + 3,
        r'RLVector as simple_sds::ops::': r + 3, r'rl_vector::(OneIter|ZeroIter|Iter|RunIter)': r + 3,
    }


SHAPES = {
    # name: (units per run as (gap units, len-1 units), samples width, trailing zeros symbolic?)
    'empty': ([], 1, True),
    'one_small': ([(1, 1)], 1, True),
    'one_at_any': ([(2, 3)], 1, True),
    'two_small': ([(1, 1), (1, 2)], 1, True),
    'three_mixed': ([(1, 2), (3, 1), (2, 2)], 1, False),
    'huge_one': ([(22, 1)], 1, True),            # gap >= 2^63
    'huge_len': ([(1, 21)], 1, True),            # run length ~ 2^60..2^63
    'two_blocks': ([(21, 22), (11, 11)], 64, True),   # 43 + 22 units > 64: second block; sample width = bit_len(>= 2^63) = 64
}
for name, (units, sw, trail) in SHAPES.items():
    blocks, nd = layout(units)
    for q, qn in enumerate(RLQ):
        quick = (name in ('empty', 'one_small') and qn != 'zero_iter') or (name in ('two_small', 'huge_one') and qn in ('rank', 'select', 'run_iter', 'pred'))
        call = 'c03::queries(&[%s], %d, %s, %d)' % (', '.join('(%d, %d)' % u for u in units), sw, 'true' if trail else 'false', q)
        inst(P, 'c03_%s_%s' % (name, qn), call, tier='quick' if quick else ('deep' if name in ('two_blocks', 'huge_len', 'three_mixed') else 'thorough'), unwind=10, unwindset=rl_uw(units),
             stubs=['simple_sds::rl_vector::index::SampleIndex::new => stubs::sample_index_new_contract'], cap=900, cap_thorough=3600, mem=24 if name == 'two_blocks' else (12 if qn in ('rank', 'zero_iter', 'one_iter') else 8), weight=nd + 1,
             role='rl %s' % qn,
             desc='RLVector %s: %d symbolic runs in code-length classes %s (%d block(s), %d code units), %s trailing zeros; argument over all usize' % (qn, len(units), units, blocks, nd, 'symbolic' if trail else 'no'),
             shape={'runs': units, 'blocks': blocks, 'units': nd, 'sample_width': sw, 'query': qn})

for (nv, uni, tier) in ((1, (1 << 64) - 1, 'quick'), (1, (1 << 63) + 1, 'quick'), (2, 1 << 63, 'quick'), (3, 17, 'thorough'), (9, 100, 'thorough'), (9, (1 << 64) - 1, 'thorough'), (17, (1 << 63) + 5, 'thorough'), (1, 1, 'thorough')):
    inst(P, 'c03_sample_index_v%d_u%d' % (nv, uni), 'c03::sample_index(%d, %d)' % (nv, uni), tier=tier, unwind=nv + 3, cap=900, mem=8, role='sample index',
         desc='SampleIndex::new + range (real code): %d symbolic increasing values below the concrete universe %d; range(v) brackets every v < universe' % (nv, uni),
         shape={'values': nv, 'universe': uni})

extra(P, assumptions=[
    'the vector is assembled from its serialized parts (samples, code units laid out per SERIALIZATION.md: 3-bit little-endian units with continuation flag, whole runs per 64-unit block, zero padding, no padding in the last block) through the cfg(simple_sds_verif) hook RLVector::verif_from_parts, which rebuilds the three sample indexes exactly as load() does; RLBuilder/From<RLBuilder> are checked separately (C16, C11)',
    'SampleIndex::parameters is replaced by its closed form for at most 16 values ((1, universe) up to 8 values): its two symbolic 64-bit divisions feed an allocation size, which is fatal for the SAT back end; the real SampleIndex::new and SampleIndex::range run',
    'each run fixes the code-length class of its gap and length; all payload bits, the trailing zeros and the query argument are symbolic; total length <= usize::MAX is assumed (documented maximum)',
], coverage={'outside_bounds': ['more than 2 blocks / more than 4 runs', 'RLBuilder -> RLVector::from construction (see C16/C11)', 'SampleIndex with more than one sample (9+ blocks)']})
