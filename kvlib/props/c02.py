from kvlib.registry import inst, extra
from kvlib import native

SPARSE = ['bvspec', 'simple_sds::sparse_vector::SparseBuilder::get_params => stubs::sparse_get_params']


def sparse_uw(n, m, w=None, multi=False):
    if w is None:
        w = native.sparse_width(n, m, multi)
    buckets = (n >> w) + (1 if n & ((1 << w) - 1) else 0) if w < 64 else (1 if n else 0)
    B = m + buckets + 2      # high.len() + 2
    M = m + 2
    return {
        r'BitVector as simple_sds::ops::(Select|SelectZero|Rank)<.*>>::(select|select_zero|rank)$': B,   # specification stubs: scan bound = high.len()
        r'sparse_vector::OneIter<.*> as std::iter::Iterator>::next$': B,
        r'sparse_vector::OneIter<.*> as std::iter::DoubleEndedIterator>::next_back$': B,
        r'SparseVector::find_zero_run$#0': 4,
        r'SparseVector::find_zero_run$#1': min(m, 17) + 2,
        r'SparseVector as simple_sds::ops::BitVec<.*>>::get$': M,
        r'SparseVector as simple_sds::ops::Rank<.*>>::rank$': M,
        r'SparseVector as simple_sds::ops::PredSucc<.*>>::predecessor$#0': M,
        r'SparseVector as simple_sds::ops::PredSucc<.*>>::predecessor$#1': B,
        r'SparseVector as simple_sds::ops::PredSucc<.*>>::successor$#0': M,
        r'SparseVector as simple_sds::ops::PredSucc<.*>>::successor$#1': B,
        r'sparse_vector::ZeroIter<.*>>::next_run$': M,
        r'sparse_vector::ZeroIter::<.*>::next_run$': M,
        r'sparse_vector::Iter<.*> as std::iter::Iterator>::next$': M,
        r'sparse_vector::Iter<.*> as std::iter::DoubleEndedIterator>::next_back$': M,
        r'SparseVector::is_multiset$': M,
        r'SparseVector::try_from_iter': M,
        r'IntVector::with_len$': M,
        r'Vec::<u64>::extend_with$': 4,
        r'RawVector::count_ones$': 4,
        r'stubs_bv::(enable|enabled)$': 26, r'stubs_bv::words_of$': 4,
    }


class LazyUW(dict):
    """unwindset resolved at generation time (needs the native width)."""
    def __init__(self, n, m, multi):
        super().__init__()
        self._a, self._done = (n, m, multi), False

    def _fill(self):
        if not self._done:
            self._done = True
            n, m, multi = self._a
            self.update(sparse_uw(n, m, None, multi))

    def items(self):
        self._fill()
        return super().items()

    def __bool__(self):
        return True


class W:
    """call string resolved at generation time: the real low width for (n, m)."""
    def __init__(self, fmt, n, m, multi=False, q=None):
        self.fmt, self.n, self.m, self.multi, self.q = fmt, n, m, multi, q

    def __str__(self):
        a = (self.n, self.m, native.sparse_width(self.n, self.m, self.multi))
        return self.fmt % (a + ((self.q,) if self.q is not None else ()))


SETQ = ['access', 'rank', 'select', 'select_zero', 'pred', 'succ']
MULTIQ = ['access', 'rank_select', 'pred', 'succ', 'one_iter']
ITERQ = ['fwd', 'bwd', 'select_iter', 'select_zero_iter']


def add(P, kind, n, m, tier, multi=False, cap=600, unwind=26, mem=6):
    if kind in ('set_queries', 'multiset_queries', 'set_iters'):
        names = SETQ if kind == 'set_queries' else (MULTIQ if kind == 'multiset_queries' else ITERQ)
        heavy = ('select_zero', 'one_iter', 'fwd', 'bwd', 'select_zero_iter', 'access')
        for q, qn in enumerate(names):
            inst(P, '%s_%s_%s_n%d_m%d' % (P.lower(), kind.split('_')[0] if kind != 'set_iters' else 'iter', qn, n, m), W('c02::%s(%%d, %%d, %%d, %%d)' % kind, n, m, multi, q), tier=(('deep' if qn == 'select_zero_iter' else 'thorough') if tier == 'full' else ('deep' if (tier == 'thorough' and qn in heavy and n != 1 << 32) else ('thorough' if (tier == 'quick' and qn == 'select_zero_iter' and n >= 1 << 32) else tier))), unwind=unwind,
                 stubs=SPARSE, cap=cap, cap_thorough=3600, mem=(20 if n == 12 and qn == 'select_zero_iter' else 14) if qn in heavy else mem, weight=m * 10 + (50 if qn in heavy else 1),
                 desc='SparseVector (%s) %s: universe %d, %d symbolic positions, real low width, argument over all usize' % (kind.split('_')[0], qn, n, m),
                 shape={'universe': n, 'ones': m, 'query': qn}).unwindset = LazyUW(n, m, multi)
        return
    inst(P, '%s_%s_n%d_m%d' % (P.lower(), kind, n, m), W('c02::%s(%%d, %%d, %%d)' % kind, n, m, multi), tier=tier, unwind=unwind, unwindset=None,
         stubs=SPARSE, cap=cap, cap_thorough=3600, mem=mem, weight=m * 10 + 1,
         desc='SparseVector %s: universe %d, %d symbolic positions, real low width, all arguments' % (kind, n, m), shape={'universe': n, 'ones': m}).unwindset = LazyUW(n, m, multi)


P = 'C02'
for (n, m, tier) in ((0, 0, 'quick'), (1, 0, 'thorough'), (1, 1, 'quick'), (6, 2, 'quick'), (12, 3, 'thorough'), (16, 2, 'deep'), (5, 5, 'full'), (16, 4, 'deep'), (64, 2, 'deep'),
                     (1 << 32, 2, 'thorough'), (1 << 63, 3, 'deep'), (1 << 63, 2, 'quick'), ((1 << 64) - 1, 1, 'quick'), ((1 << 64) - 1, 3, 'deep'),
                     (64, 17, 'deep'), (64, 20, 'deep')):
    add(P, 'set_queries', n, m, tier, cap=900)
    if n <= 64 or m <= 2:
        add(P, 'set_iters', n, m, tier if (m <= 4 or tier == 'full') else 'deep', cap=900)
for (n, m, tier) in ((0, 0, 'quick'), (5, 0, 'thorough'), (3, 1, 'quick'), (6, 2, 'deep'), (12, 3, 'deep'), (5, 5, 'deep'), (16, 2, 'deep')):
    add(P, 'set_bits', n, m, tier, mem=28)

P = 'C15'
for (n, m, tier) in ((1, 1, 'quick'), (6, 3, 'quick'), (12, 3, 'thorough'), (4, 6, 'deep'), (2, 4, 'quick'), (3, 1, 'thorough'), (16, 4, 'deep'), (2, 9, 'deep'), (1 << 63, 3, 'deep'), (1 << 63, 2, 'quick'), ((1 << 64) - 1, 2, 'deep')):
    add(P, 'multiset_queries', n, m, tier, multi=True, cap=900)
for (n, m, tier) in ((2, 2, 'quick'), (6, 3, 'deep'), (12, 3, 'deep'), (4, 6, 'deep'), (8, 4, 'deep')):
    add(P, 'multiset_bits', n, m, tier, multi=True, mem=28)
class TF:
    def __init__(self, m, last):
        self.a = (m, last)

    def __str__(self):
        m, last = self.a
        return 'c02::try_from_iter(%d, %d, %d)' % (m, last, native.sparse_width(last + 1 if m else 0, m, True))


for (m, last) in ((0, 0), (1, 5), (3, 9), (3, 0)):
    i = inst(P, 'c15_try_from_iter_m%d_last%d' % (m, last), TF(m, last), tier='quick', unwind=42, stubs=SPARSE, cap=900, mem=8,
             desc='SparseVector::try_from_iter: %d values (last = %d, the others symbolic < 40): accepted exactly when non-decreasing, universe = last+1, select(i) = i-th value' % (m, last), shape={'values': m, 'last': last})
    i.unwindset = LazyUW(last + 1 if m else 0, m, True)

for P in ('C02', 'C15'):
    extra(P, assumptions=[
        'R3: the embedded high BitVector answers rank/select/select_zero through specification stubs (linear scan over its real bits); enable_* are no-ops. The plain bitvector is verified against the same specification in C01.',
        'SparseBuilder::get_params (f64 ln/log2/round) is stubbed: low width = the value the REAL rule yields for the instance (computed natively from /repo at generation time), buckets = ceil(universe / 2^w)',
    ], coverage={'outside_bounds': ['more than 20 set bits', 'universes where buckets + ones > 72 (scan bound of the specification stubs)', 'the parameter rule itself is evaluated natively, not symbolically']})
