"""C08 — memory safety of the safe API. No separate semantics: the check runs a union of instances
of the other families that drive every `*_unchecked` site named in the property's anchors with
arguments over all usize, and any failed obligation there (CBMC pointer/bounds/precondition
classes and Kani's arithmetic-overflow checks, R5) is a C08 violation; memory-class
counterexamples are additionally replayed in --release under valgrind."""
import re
from kvlib.registry import extra, finalizer

P = 'C08'
PATTERNS = [
    r'^c09_bv_(iter|one_iter|zero_iter)_nth_',        # OneIter::{next,nth,next_back} after a consumed prefix, n over all usize
    r'^c09_bv_out_of_range_', r'^c09_bv_pred_succ_beyond_',
    r'^c01_rank_l(64|65|513|1101)$',                    # rank_unchecked through the wrapper, index over all usize
    r'^c01_(select|select_zero|select_iter|pred_succ)_(short|long)_l(2|7)$',   # select_unchecked through the wrappers
    r'^c10_bv_(one_iter|zero_iter|iter)_l(5|70)_k4$',  # Complement::word at the last word, both directions
    r'^c17_(select_word|rw_int|masks)$',                # table lookups, read/write_int
    r'^c05_raw_(set_int|pop_int|push_int|word_clone)_l(64|65|191)$',
    r'^c13_badoff_', r'^c13_trunc_',                     # mapped slices at every offset / truncation
    r'^c09_access_iter_nth_', r'^c04_core_map_up_with_', r'^c04_wm_select_',
]


QUICK = [r'^c09_bv_(iter|one_iter|zero_iter)_nth_l5$', r'^c09_bv_out_of_range_l65$', r'^c09_bv_pred_succ_beyond_l65$', r'^c01_rank_l65$', r'^c17_(select_word|rw_int|masks)$',
         r'^c05_raw_(set_int|pop_int)_l65$', r'^c13_badoff_(i3|v3|b9|r65)', r'^c09_access_iter_nth_w13_n5$', r'^c04_core_map_up_with_n3_max1$', r'^c04_wm_select_n3_max1_fw1$',
         r'^c10_bv_iter_l5_k4$', r'^c01_select_short_l2$']


def tag(insts):
    for i in insts:
        if any(re.search(p, i.name) for p in PATTERNS) and P not in i.props:
            i.props = list(i.props) + [P]
            i.tier_for = dict(getattr(i, 'tier_for', {}))
            # quick: a cheap cross-section; thorough: every tagged instance that is in the quick tier of its
            # home property; deep: the rest
            i.tier_for[P] = 'quick' if any(re.search(p, i.name) for p in QUICK) else ('thorough' if i.tier == 'quick' else 'deep')


finalizer(tag)
extra(P, assumptions=[
    'R5: Kani compiles with overflow checks on; every arithmetic-overflow obligation on a path is discharged, so the dev and release MIR agree on that path and the memory-safety verdict transfers to release builds; the BMI2/portable select equivalence is C17',
    'structures are built through the safe API or assembled from parts the library itself would write (hooks); files not written by the library are outside the property',
], coverage={'outside_bounds': ['select support indexing across more than one superblock (> 4096 set bits)', 'allocation failure', 'data races (no safe API shares mutable state)', 'stack overflow']})
