from kvlib.registry import inst, extra, seed

P = 'C05'
OPS = ['push_bit', 'push_int', 'pop_bit', 'pop_int', 'set_bit', 'set_int', 'resize', 'clear', 'complement', 'word_clone']
QUICK_L = [0, 1, 63, 64, 65, 128, 191]
ALL_L = list(range(0, 193))
THOROUGH_L = {2, 3, 62, 66, 127, 128, 129, 190, 191, 192}
for l in ALL_L:
    for k, op in enumerate(OPS):
        if l == 0 and op in ('set_bit', 'word_clone'):
            continue   # no index exists in an empty vector
        quick = l in QUICK_L and not (op in ('clear', 'word_clone') and l not in (65,)) and not (op in ('set_int', 'push_int', 'pop_int') and l > 65)
        inst(P, 'c05_raw_%s_l%d' % (op, l), 'c05::raw_step(%d, %d)' % (l, k), tier='quick' if quick else ('thorough' if (l in THOROUGH_L and not (op in ('set_int', 'push_int', 'pop_int') and l > 66)) else 'deep'),
             unwind=66 if l < 128 else 66, desc='RawVector %s: arbitrary valid %d-bit state, all arguments' % (op, l),
             shape={'len': l, 'op': op}, cap=600,
             stubs=['vec_resize'] if op in ('pop_bit', 'pop_int', 'resize') else [])

for l, e in ((0, 1), (1, 63), (63, 2), (64, 1), (65, 64), (130, 7)):
    inst(P, 'c05_raw_routes_l%d_e%d' % (l, e), 'c05::raw_routes(%d, %d)' % (l, e), unwind=max(l, 64) + 2, cap=600,
         tier='quick' if l in (1, 65) else 'thorough',
         desc='RawVector: %d-bit content built by three routes (set_int / push_bit+pop_int / push_int+resize up+down) is ==, same bytes, same count_ones' % l,
         shape={'len': l, 'extra': e})

IOPS = ['push', 'pop', 'set_get', 'resize', 'clear', 'pack', 'extend', 'iter']
def n_for(w):
    return min(6, 64 // w + 2) if w >= 11 else 5
QUICK_W = [1, 7, 13, 32, 63, 64]
for w in range(1, 65):
    for k, op in enumerate(IOPS):
        for n in sorted({0, n_for(w)}):
            quick = w in QUICK_W and (n > 0 or op in ('pop', 'pack', 'resize'))
            st = ['vec_resize'] if op in ('pop', 'resize') else []
            if op in ('pack',):
                st = ['rawvec_fixed', 'vec_push']
            if op in ('resize', 'extend'):
                st = st + ['rawvec_reserve']
            inst(P, 'c05_int_%s_w%d_n%d' % (op, w, n), 'c05::int_step(%d, %d, %d)' % (w, n, k), tier='quick' if quick else ('thorough' if (n > 0 and w % 8 in (0, 1, 7) and op in ('push', 'pop', 'set_get', 'pack', 'resize')) else 'deep'),
                 unwind=66 if op == 'pack' else 12, stubs=st, cap=300,
                 desc='IntVector %s: arbitrary %d items of width %d, all arguments' % (op, n, w), shape={'width': w, 'len': n, 'op': op})
    inst(P, 'c05_int_routes_w%d' % w, 'c05::int_routes(%d, %d)' % (w, n_for(w)), tier='quick' if w in (13, 64) else ('thorough' if w % 16 in (0, 1) else 'deep'), unwind=8 * 14 + 2,
         stubs=['vec_resize', 'rawvec_reserve'], cap=600,
         desc='IntVector width %d: push / with_len+set / push+pop+resize routes are ==, same bytes' % w, shape={'width': w, 'len': n_for(w)})
for t in ('u8', 'u16', 'u32', 'u64', 'usize'):
    inst(P, 'c05_int_from_%s' % t, 'c05::from_%s()' % t, unwind=34, desc='From<Vec<%s>> and FromIterator<%s>: 3 symbolic items' % (t, t), shape={'type': t})
inst(P, 'c05_int_ctor', 'c05::int_ctor()', unwind=4, desc='IntVector::new/with_capacity/with_len reject exactly width 0 and >64 (all usize)')

extra(P, assumptions=[
    'one arbitrary operation from an arbitrary valid state of a concrete length (inductive step): histories are covered because every operation is shown to re-establish the representation invariant (word count = ceil(len/64), zero tail) and to agree with the model',
    'stubs: Vec::resize -> semantics-preserving no-realloc version (pop/resize instances); RawVector::with_capacity/new -> fixed 1024-bit capacity and Vec::push no-grow (pack instances); RawVector::reserve -> asserts fixed capacity suffices (IntVector resize/extend instances); capacity() and reallocation are outside these instances',
    'set_bit/set_int/get at offsets beyond len are documented "may panic" and are not exercised',
], coverage={'outside_bounds': ['RawVector longer than 192 bits / IntVector longer than 9 items', 'allocation failure', 'reserve()/capacity() values themselves (only their effect on content)']})
