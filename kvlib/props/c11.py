from kvlib.registry import inst, extra
from kvlib import native
from kvlib.props.c02 import SPARSE, sparse_uw
from kvlib.props.c16 import RLSTUBS, rluw

P = 'C11'
ONES = ['simple_sds::raw_vector::RawVector::count_ones => stubs::rawvec_count_ones_fixed']


class CC:
    def __init__(self, fn, l, m, kind):
        self.a = (fn, l, m, kind)

    def __str__(self):
        fn, l, m, kind = self.a
        return 'c11::%s(%d, %d, %d, %d)' % (fn, l, m, native.sparse_width(l, m, False), kind)


class LUW(dict):
    def __init__(self, l, m, extra):
        super().__init__()
        self._a, self._done = (l, m, extra), False

    def items(self):
        if not self._done:
            self._done = True
            l, m, extra = self._a
            d = sparse_uw(l, m, None, False)
            d.update(extra)
            d.update({r'c11::build_bv$': m + 2, r'c11::build_rl$': m + 2, r'c11::same_bits': 10, r'RawVector::count_ones$': 6, r'memcmp': 40,
                      r'SparseVector::copy_bit_vec': m + 2, r'BitVector::copy_bit_vec': m + 2, r'RLVector::copy_bit_vec': m + 2,
                      r'bit_vector::OneIter<.*> as std::iter::Iterator>::next$': 4, r'SlicePartialEq': 6})
            self.update(d)
        return super().items()

    def __bool__(self):
        return True


BSK = ['bv_to_sparse', 'sparse_to_bv', 'bv_sparse_bv', 'sparse_bv_sparse']
for (l, m, tier) in ((8, 2, 'quick'), (4, 1, 'quick'), (8, 0, 'thorough'), (8, 8, 'deep'), (16, 3, 'deep'), (65, 2, 'deep')):
    for kind, kn in enumerate(BSK):
        inst(P, 'c11_%s_l%d_m%d' % (kn, l, m), CC('bv_sparse', l, m, kind), tier=(tier if kn in ('bv_to_sparse', 'bv_sparse_bv') else 'deep'), unwind=10, stubs=SPARSE + ONES, cap=1200, cap_thorough=3600, mem=12, weight=m + 1,
             desc='%s: %d-bit vector with %d symbolic set positions; converted structure == the one built directly by the target builder, same bits' % (kn, l, m),
             shape={'len': l, 'ones': m, 'conversion': kn}).unwindset = LUW(l, m, {})

RLK = ['rl_bits_vs_runs', 'bv_to_rl', 'rl_to_bv', 'sparse_to_rl', 'rl_to_sparse']
for (l, m, tier) in ((7, 2, 'deep'), (7, 3, 'deep'), (7, 0, 'deep')):
    for kind, kn in enumerate(RLK):
        inst(P, 'c11_%s_l%d_m%d' % (kn, l, m), CC('rl_conv', l, m, kind), tier=tier, unwind=10, stubs=SPARSE + ONES + RLSTUBS, cap=1500, cap_thorough=5400, mem=24, weight=100 + m,
             desc='%s: %d-bit vector with %d symbolic set positions (values <= 7: one code unit each); result == directly built target, same bits' % (kn, l, m),
             shape={'len': l, 'ones': m, 'conversion': kn}).unwindset = LUW(l, m, rluw('7'))

extra(P, assumptions=['the number of set bits is fixed per instance (RawVector::count_ones stub returns the constant and cuts other popcounts): sizes of the target builders are then concrete',
                      'embedded bitvectors of SparseVector answer through specification stubs (their supports are not built, so == compares bits and low parts); RL sample indexes through the contract stub',
                      'equality (==, derived over all fields) is asserted; byte-identical serialization follows because serialize() is a function of exactly those fields (checked per type in C06/C07)'],
      coverage={'outside_bounds': ['vectors longer than 65 bits / more than 8 set bits', 'conversion chains longer than 2', 'conversions that START from a builder-made SparseVector (sparse_to_bv, sparse_bv_sparse) and all run-length conversions exceed 12 GB even at 4 bits and are in the deep tier; SparseVector -> BitVector is exercised in the quick tier as the second half of the bv -> sparse -> bv chain']})
