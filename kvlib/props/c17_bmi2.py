"""C17, BMI2 path of bits::select: engine E2 (kvlib/mirsmt.py).  Adds a pre-check to the Kani instances of c17.py."""
from kvlib import registry
from kvlib.mirsmt import check_select_bmi2

P = 'C17'
registry.pre_check(P, check_select_bmi2)

registry.extra(P, assumptions=[
    'BMI2 path of bits::select (c17_select_bmi2): MIR of /repo compiled with -C target-feature=+bmi2 -C overflow-checks=on, translated to SMT-LIB2 (QF_BV); '
    '_pdep_u64 modelled by the Intel SDM pseudo-code unrolled 64x, u64::trailing_zeros by its definition; both SMT definitions are validated (not proved) against '
    'this CPU on 4096 words per run; /usr/bin/z3 and cvc5 must both answer unsat. The equivalence with the 64-step scan is not decided by either solver as one query within the cap; '
    'it is cut into 262 single-loop-iteration lemmas about the named loop states of the PDEP model and of the scan, each proved by both solvers assuming only lemmas proved before it, '
    'and the final obligation is proved from three of them; a direct query without lemmas runs alongside and delivers counterexamples',
    'portable path == BMI2 path follows from c17_select_word (portable == scan, E1) and c17_select_bmi2 (BMI2 == scan, E2) over the same domain rank < popcount(n)',
])
