from kvlib.registry import inst, extra
from kvlib.props.c01 import select_unwindset, ALLOC

P = 'C19'


def uw(l):
    d = select_unwindset(l)
    d.update({r'c19::': 4, r'memcmp': 600, r'RankSupport::new$#0': 3, r'RankSupport::new$#1': 4})
    return d


for l in (0, 1, 2, 7):
    for mask in range(8):
        for order in range(6):
            quick = (l == 1 and (mask, order) in ((0, 0), (1, 3), (2, 5), (5, 1), (7, 2))) or (l == 0 and mask == 7 and order == 0)
            tier = 'quick' if quick else 'thorough'
            if l == 7 and not (order in (0, 4)):
                continue
            inst(P, 'c19_supports_l%d_m%d_o%d' % (l, mask, order), 'c19::supports(%d, %d, %d)' % (l, mask, order), tier=tier, unwind=26, unwindset=uw(l),
                 stubs=ALLOC, cap=1200, cap_thorough=5400, mem=14, weight=10 * l + bin(7 - mask).count('1'),
                 desc='BitVector %d symbolic bits written with support subset %d (1 rank, 2 select, 4 select_zero), loaded, rest enabled in order %d: equals the fully enabled original; idempotent; bits unchanged' % (l, mask, order),
                 shape={'len': l, 'written_supports': mask, 'enable_order': order})
for (l, mask, tier) in ((65, 1, 'quick'), (1, 7, 'quick'), (2, 7, 'thorough'), (65, 0, 'thorough'), (7, 7, 'thorough')):
    inst(P, 'c19_skip_supports_l%d_m%d' % (l, mask), 'c19::skip_supports(%d, %d)' % (l, mask), tier=tier, unwind=26, unwindset=uw(l), stubs=ALLOC if mask & 6 else [],
         cap=1200, mem=14, desc='skip_option over the three optional supports of a serialized BitVector (%d bits, supports %d) lands exactly on the next value' % (l, mask),
         shape={'len': l, 'written_supports': mask})

extra(P, assumptions=['real RankSupport / SelectSupport construction (both on the original and on the loaded copy); R2 allocation stubs where a SelectSupport is built',
                      'embedding structures loading from support-free parts: C04 (wavelet matrix), C02/C07 (sparse) use specification stubs that fail when a needed support was never enabled'],
      options={'no_reach': True},
      coverage={'outside_bounds': ['bitvectors longer than 7 bits when a select support is involved', 'interleaving serialize/load more than once']})
