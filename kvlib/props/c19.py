from kvlib.registry import inst, extra
from kvlib.props.c01 import select_unwindset, ALLOC

P = 'C19'


def uw(l):
    d = select_unwindset(l)
    d.update({r'c19::': 4, r'memcmp': 600, r'RankSupport::new$#0': 10, r'RankSupport::new$#1': 4 + l // 512, r'c01::any_bits$': (l + 63) // 64 + 2, r'RawVector::count_ones$': (l + 63) // 64 + 2, r'Vec::<u64>::extend_with$': max(18, (l + 63) // 64 + 2)})
    return d


# A SelectSupport holds three packed IntVectors whose lengths and widths depend on the (symbolic)
# bits: LOADING one means allocations of symbolic size, which CBMC does not survive (measured:
# > 25 min in symbolic execution at 1 bit). So for vectors with symbolic bits only the rank support
# (concrete size) is written before the load; select supports are written for the 0-bit vector
# (everything concrete) and are otherwise built after the load, on both sides.
for l in (0, 1, 2, 7):
    masks = range(8) if l == 0 else (0, 1)
    for mask in masks:
        for order in range(6):
            quick = l == 0 and (mask, order) in ((7, 0), (0, 3), (5, 1))
            if l >= 2 and order not in (0, 4):
                continue
            inst(P, 'c19_supports_l%d_m%d_o%d' % (l, mask, order), 'c19::supports(%d, %d, %d)' % (l, mask, order), tier='quick' if quick else ('thorough' if l == 0 else 'deep'), unwind=26, unwindset=uw(l),
                 stubs=ALLOC, cap=1200, cap_thorough=5400, mem=14, weight=10 * l + bin(7 - mask).count('1'),
                 desc='BitVector %d symbolic bits written with support subset %d (1 rank, 2 select, 4 select_zero), loaded, rest enabled in order %d: equals the fully enabled original; idempotent; bits unchanged' % (l, mask, order),
                 shape={'len': l, 'written_supports': mask, 'enable_order': order})
for (l, tier) in ((1, 'deep'), (65, 'deep'), (513, 'deep')):
    for written in (False, True):
        inst(P, 'c19_rank_support_l%d_%s' % (l, 'written' if written else 'absent'), 'c19::rank_support(%d, %s)' % (l, 'true' if written else 'false'), tier=tier, unwind=26,
             unwindset={r'RankSupport::new$#0': 10, r'RankSupport::new$#1': 5, r'memcmp': 200, r'c01::any_bits': 20}, cap=900, cap_thorough=3600, mem=30,
             desc='BitVector %d symbolic bits, rank support %s at write time: loaded copy reports it, ==, enable_rank on both sides ==, idempotent, rank(i) exact for all usize i' % (l, 'present' if written else 'absent'),
             shape={'len': l, 'rank_written': written})
for (l, mask, tier) in ((65, 1, 'quick'), (0, 7, 'quick'), (65, 0, 'thorough'), (513, 1, 'thorough')):
    inst(P, 'c19_skip_supports_l%d_m%d' % (l, mask), 'c19::skip_supports(%d, %d)' % (l, mask), tier=tier, unwind=26, unwindset=uw(l), stubs=ALLOC if mask & 6 else [],
         cap=1200, mem=14, desc='skip_option over the three optional supports of a serialized BitVector (%d bits, supports %d) lands exactly on the next value' % (l, mask),
         shape={'len': l, 'written_supports': mask})

for (l, tier) in ((7, 'quick'), (100, 'quick'), (600, 'deep')):
    for value in (False, True):
        for regime in ('short', 'long'):
            if regime == 'long' and l != 7:
                continue
            inst(['C19', 'C06'], 'c19_uniform_l%d_%s%s' % (l, 'ones' if value else 'zeros', '_long' if regime == 'long' else ''), 'c19::uniform(%d, %s, %s)' % (l, 'true' if value else 'false', 'true' if regime == 'long' else 'false'), tier=tier, unwind=max(l, 64) + 4,
                 unwindset={r'memcmp': 600}, cap=900, mem=10,
                 desc='uniform BitVector (%d bits, all %d, %s-superblock regime): every support built, written, loaded; == and rank/select/select_zero for a symbolic argument (the only shape where loaded select supports have concrete sizes)' % (l, 1 if value else 0, regime),
                 shape={'len': l, 'bits': 'all ones' if value else 'all zeros', 'regime': regime})

extra(P, assumptions=['real RankSupport / SelectSupport construction (both on the original and on the loaded copy); R2 allocation stubs where a SelectSupport is built',
                      'embedding structures loading from support-free parts: C04 (wavelet matrix), C02/C07 (sparse) use specification stubs that fail when a needed support was never enabled'],
      options={'no_reach': True},
      coverage={'outside_bounds': ['select supports WRITTEN before the load for non-empty vectors (loading them allocates symbolic sizes); they are built after the load instead', 'bitvectors longer than 7 bits when a select support is involved', 'interleaving serialize/load more than once']})
