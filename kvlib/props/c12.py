from kvlib.registry import inst, extra, stubset

P = 'C12'

# Ghost file: the three std entry points through which the writers reach the OS (harness/src/stubs_file.rs).
stubset('ghost_file', [
    ('std::fs::OpenOptions::open', 'stubs_file::ghost_open'),
    ('<std::fs::File as std::io::Write>::write', 'stubs_file::ghost_write'),
    ('<std::fs::File as std::io::Seek>::seek', 'stubs_file::ghost_seek'),
])
GHOST = dict(stubs=['ghost_file'], models=['close_model.c'], unwind=98)


def bufbits(w, b):
    return max(64, (b * w + 63) // 64 * 64)


def flushes(w, b, k):
    """Human-readable flush pattern of the shape (for desc only; nothing is asserted about it)."""
    bl, cur, out = bufbits(w, b), 0, []
    for _ in range(k):
        cur += w
        if cur >= bl:
            cur -= bl
            out.append(cur)
    return 'buffer %d bits; safe flushes carry %s bits; final flush %d bits' % (bl, out or 'none', cur)


# (width, buffer items, pushes). Overflow carried by the safe flush: 0 (exactly full), 1, 2, 62, 61, ...
INT_QUICK = [
    (13, 3, 3),    # no flush before close (the probe shape)
    (13, 3, 4),    # 52 bits pending at close
    (64, 1, 4),    # every push fills the buffer exactly; empty buffer at close
    (64, 0, 3),    # buffer length 0 -> one word
    (63, 1, 4),    # buffer smaller than one word; carries 62, 61, 60
    (32, 2, 4),    # exactly full at pushes 2 and 4, nothing pending at close
    (33, 1, 4),    # item straddles the flush boundary: carries 2, then 35 -> 4 ...
    (1, 1, 4),     # width 1
]
INT_THOROUGH = [
    (13, 3, 5), (13, 3, 6), (13, 0, 5),      # 65 bits: carry 1
    (64, 2, 5), (64, 3, 6), (63, 1, 6), (63, 2, 6), (40, 2, 5), (40, 2, 6), (17, 5, 6), (7, 0, 6), (1, 0, 6),
    (33, 1, 6), (31, 2, 6), (32, 1, 6), (22, 3, 6), (64, 0, 6), (50, 1, 6),
]
for (w, b, k) in INT_QUICK + INT_THOROUGH:
    tier = 'quick' if (w, b, k) in INT_QUICK else 'thorough'
    sh = {'width': w, 'buf_items': b, 'pushes': k}
    inst(P, 'c12_int_close_w%d_b%d_k%d' % (w, b, k), 'c12::int_close(%d, %d, %d)' % (w, b, k), tier=tier, shape=sh,
         desc='IntVectorWriter: %d symbolic pushes, close, close again, drop: file == serialize(IntVector); %s' % (k, flushes(w, b, k)), **GHOST)
    inst(P, 'c12_int_drop_w%d_b%d_k%d' % (w, b, k), 'c12::int_drop(%d, %d, %d)' % (w, b, k),
         tier='quick' if (w, b, k) in ((13, 3, 4), (63, 1, 4), (32, 2, 4)) else 'thorough', shape=sh,
         desc='IntVectorWriter dropped without close(): same complete file; %s' % flushes(w, b, k), **GHOST)
# every width with a one-item and a zero-item buffer (thorough): 6 pushes
for w in range(1, 65):
    for b in (0, 1, 3):
        if (w, b, 6) in INT_THOROUGH:
            continue
        inst(P, 'c12_int_close_w%d_b%d_k6' % (w, b), 'c12::int_close(%d, %d, 6)' % (w, b), tier='thorough',
             shape={'width': w, 'buf_items': b, 'pushes': 6},
             desc='IntVectorWriter width grid; %s' % flushes(w, b, 6), **GHOST)

TYPES = ['u64', 'u8', 'u16', 'u32', 'usize']
for (w, b, k, t) in ((13, 1, 2, 0), (63, 1, 2, 0), (8, 2, 4, 1), (16, 1, 4, 2), (32, 1, 4, 3), (64, 1, 4, 4), (33, 1, 4, 0)):
    inst(P, 'c12_int_extend_%s_w%d_b%d_k%d' % (TYPES[t], w, b, k), 'c12::int_extend(%d, %d, %d, %d)' % (w, b, k, t),
         tier='quick' if (w, t) in ((13, 0), (63, 0), (8, 1)) else 'thorough', shape={'width': w, 'buf_items': b, 'extend': k, 'type': TYPES[t]},
         desc='push, Extend<%s> of %d symbolic items, push == repeated push; %s' % (TYPES[t], k, flushes(w, b, k + 2)), **GHOST)
for w in (0, 65):
    inst(P, 'c12_int_bad_width_w%d' % w, 'c12::int_bad_width(%d)' % w, shape={'width': w}, desc='width %d: with_buf_len returns Err before anything is opened' % w, **GHOST)
for (w, b, k, c) in ((13, 3, 4, 1), (64, 1, 3, 5), (63, 1, 4, 7)):
    inst(P, 'c12_int_chopped_w%d_b%d_k%d_c%d' % (w, b, k, c), 'c12::int_chopped(%d, %d, %d, %d)' % (w, b, k, c), tier='quick' if c == 5 else 'thorough',
         shape={'width': w, 'buf_items': b, 'pushes': k, 'max_bytes_per_write': c},
         desc='every write(2) transfers at most %d byte(s): the real write_all loop still leaves the complete file' % c, **GHOST)

B = 100  # c12::BIT
# (buffer bits, ops, comment)
RAW_QUICK = [
    (64, [63, B, B, 64], 'push_bit fills the buffer exactly; then 1+64 = 65: carry 1'),
    (64, [63, 64, 1, B], 'carry 63, then exactly full (carry 0), 1 bit pending'),
    (0, [B, 0, 1, 63], 'buffer 0 -> 64 bits; width-0 push is a no-op; 65 bits: carry 1'),
    (65, [64, 64, B], 'buffer 65 -> 128 bits: exactly full after two words'),
    (64, [], 'nothing pushed'),
]
RAW_THOROUGH = [
    (64, [63, B, B, 64, 1, 63], 'exact, carry 1, carry 1'),
    (64, [63, 64, 1, B, 0, 64], 'carry 63, exact, carry 1'),
    (1, [64, 64, 64, 64, 64, 64], 'every push exactly fills the one-word buffer'),
    (100, [B, 63, 64, 1, 64, 0], 'buffer 100 -> 128: exact at 128, 65 pending'),
    (128, [64, 63, 64, 64, B, B], 'carry 63 across a two-word buffer, then 64+1+1'),
    (64, [B, B, B, B, B, B], 'bits only'),
    (64, [0, 0, 0], 'only width-0 pushes'),
    (64, [1, 63, 1, 63, 64, 64], 'exact four times'),
    (128, [31, 64, 33, 64, 64, 1], 'exact at 128 by a straddling 33'),
    (192, [64, 64, 63, B, 64, 64], 'three-word buffer filled by push_bit'),
]
for n, (bb, ops, why) in enumerate(RAW_QUICK + RAW_THOROUGH):
    quick = n < len(RAW_QUICK)
    lit = '&[%s]' % ', '.join('c12::BIT' if o == B else str(o) for o in ops)
    tag = '_'.join('b' if o == B else str(o) for o in ops) or 'none'
    for h, hn in ((0, 'close'), (2, 'hdr2'), (1, 'hdr1'), (0, 'drop')):
        q = quick and (hn in ('close', 'hdr2') or (hn == 'drop' and n in (0, 1)))
        call = 'c12::raw_drop(%d, %s)' % (bb, lit) if hn == 'drop' else 'c12::raw_close(%d, %s, %d, %s)' % (bb, lit, h, 'true' if hn.startswith('hdr') else 'false')
        inst(P, 'c12_raw_%s_buf%d_%s' % (hn, bb, tag), call, tier='quick' if q else 'thorough',
             shape={'buf_bits': bb, 'ops': ['bit' if o == B else o for o in ops], 'user_header_words': h, 'end': hn},
             desc='RawVectorWriter %s, user header %d words: %s' % (hn, h, why), **GHOST)

extra(P, assumptions=[
    'ghost file (harness/src/stubs_file.rs): std::fs::OpenOptions::open, <File as Write>::write, <File as Seek>::seek are replaced by a 96-byte array with offset and length; open(create,write,truncate) yields an empty file; write transfers all bytes (or at most c per call in the chopped instances) at the offset; <File as Write>::write_all is the REAL default method looping over that write',
    'close(2) (reached from OwnedFd::drop) is the linked C model models/close_model.c: always succeeds, calls are counted (asserted: exactly one close per writer)',
    'the file is what those three calls leave: page cache, fsync, directory entries and the real file system are not modelled (native replay runs the same template on a real temporary file)',
    'all shapes (width, buffer length, number and width of every push, user-header length) are concrete per instance; pushed values, bits and header words are symbolic over their full range (values are NOT pre-masked to the width)',
    'user-header protocol of RawVectorWriter as IntVectorWriter uses it: placeholder of the same length at creation, final header at close_with_header',
], coverage={'outside_bounds': [
    'RawVectorWriter::new / IntVectorWriter::new: the default 8 MiB buffer (only with_buf_len with buffers <= 192 bits is executed; the flush logic is the same code)',
    'more than 6 pushes per history (8 for extend); files larger than 96 bytes; buffers beyond 192 bits',
    'raw push mixes other than the listed patterns (widths 0, 1, 31, 33, 63, 64 and single bits)',
    'the real file system, I/O errors (C14), a user header whose length differs between creation and close',
]})
