"""C20 — temp file names under concurrency.  Engine E2 (kvlib/mirsmt.py) only: Kani does not model threads."""
from kvlib import registry
from kvlib.mirsmt import check_temp_name

P = 'C20'
registry.pre_check(P, check_temp_name)

registry.extra(P, assumptions=[
    'the behaviour of temp_file_name with respect to the counter is the access sequence extracted from its MIR (rustc nightly, -Zunpretty=mir, regenerated from /repo on every run); '
    'the extraction fails (inconclusive) on any MIR construct, call or atomic operation outside its whitelist, and if any other item of the crate mentions the static',
    'each atomic access is one indivisible step and the single counter is sequentially consistent: the counter is the only shared location, and coherence (one total modification '
    'order per atomic object, read-modify-writes read the latest value in it) makes single-location executions sequentially consistent under every Ordering, '
    'so the Ordering argument is recorded but does not change the encoding; load/store sequences are interleaved freely',
    'opaque std calls on the path (env::temp_dir, process::id, fmt::format, hint::must_use, PathBuf::push) return and do not touch the counter (it is a private static)',
    'PathBuf::push(component) yields a path whose text ends with the component (appended after a separator, or replacing the buffer when the component is absolute)',
    'Display for usize renders 1..=20 ASCII decimal digits and different values render differently (the SMT-LIB function str.from_int has this property: lemma query); '
    'Display for &str renders the string verbatim; placeholders carry default formatting options (checked in the template bytes); every other format argument '
    '(the pid) is an arbitrary string that may even differ between the two calls, so the string obligations do not rely on process::id',
    'format template decoded from the bytes of the fmt::Arguments template constant in the MIR (encoding documented in core::fmt, this toolchain); cross-checked against the format! literal in the source text',
    'a call that fails an overflow assert unwinds: it returns no name and the later calls of that thread do not run',
], coverage={
    'outside_bounds': ['more than 3 threads x 2 calls (quick) / 4 threads x 3 calls (thorough); the argument is uniform in the number of calls but only the bounded instances are decided',
                       'uniqueness across processes (process::id), across counter wrap-around after 2^64 calls in one process',
                       'weak-memory effects beyond atomicity of a single access', 'what the caller does with the path (file creation races)'],
    'checker_cmd': 'cargo +nightly rustc --lib -- -Zunpretty=mir (MIR of /repo) ; kvlib/mirsmt.py (extraction + SMT-LIB2 generation) ; /usr/bin/z3 4.8.12 and cvc5 1.0.3, both must answer unsat ; native barrier stress run for counterexamples',
    'rule': 'one evaluation = one SMT query generated from the access sequence and format template extracted from the MIR of the current tree, decided by z3 and cvc5 '
            '(c20_lemma_decimal: source independent, z3 only); a failed extraction is reported as instance c20_extract with status ERROR',
})
