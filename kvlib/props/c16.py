from kvlib.registry import inst, extra
from kvlib import native
from kvlib.props.c02 import SPARSE, sparse_uw

P = 'C16'


class SB:
    def __init__(self, fmt, n, m, multi, *rest):
        self.fmt, self.n, self.m, self.multi, self.rest = fmt, n, m, multi, rest

    def __str__(self):
        return self.fmt % ((self.n, self.m, native.sparse_width(self.n, self.m, self.multi)) + self.rest)


class LazySB(dict):
    def __init__(self, n, m, multi):
        super().__init__()
        self._a, self._done = (n, m, multi), False

    def items(self):
        if not self._done:
            self._done = True
            n, m, multi = self._a
            d = sparse_uw(n, m, None, multi)
            d.update({r'c16::sparse_builder$#0': m + 2, r'c16::sparse_builder$#1': 10, r'c16::sparse_extend$': m + 2,
                      r'SparseBuilder as std::iter::Extend<usize>>::extend': m + 2, r'RawVector::count_ones$': 4})
            self.update(d)
        return super().items()

    def __bool__(self):
        return True


for (n, m, multi, tier) in ((12, 3, False, 'quick'), (12, 3, True, 'quick'), (4, 4, False, 'deep'), (2, 4, True, 'deep'), (1, 0, False, 'thorough'), ((1 << 64) - 1, 2, False, 'deep')):
    for prefix in range(0, m + 1):
        q = tier == 'quick' and prefix in (0, 1, m)
        i = inst(P, 'c16_sparse_%s_n%d_m%d_p%d' % ('multi' if multi else 'set', n, m, prefix),
                 SB('c16::sparse_builder(%%d, %%d, %%d, %s, %d)' % ('true' if multi else 'false', prefix), n, m, multi),
                 tier='quick' if q else tier if tier != 'quick' else 'thorough', unwind=10, stubs=SPARSE, cap=900, cap_thorough=3600, mem=10, weight=m + 1,
                 desc='SparseBuilder (%s, universe %d, capacity %d): %d accepted calls, then one try_set(x) for all usize x, then fill + convert' % ('multiset' if multi else 'set', n, m, prefix),
                 shape={'universe': n, 'capacity': m, 'multiset': multi, 'prefix': prefix})
        i.unwindset = LazySB(n, m, multi)
inst(P, 'c16_sparse_extend_n12_m3', SB('c16::sparse_extend(%d, %d, %d)', 12, 3, False), unwind=10, stubs=SPARSE, cap=900, mem=10,
     desc='SparseBuilder Extend<usize> == repeated set, 3 symbolic positions', shape={'universe': 12, 'capacity': 3}).unwindset = LazySB(12, 3, False)

RLSTUBS = ['nofmt', 'rawvec_fixed', 'rawvec_reserve', 'vec_push', 'vec_resize', 'simple_sds::rl_vector::index::SampleIndex::new => stubs::sample_index_new_contract']
RLUW = {r'RLBuilder::encode$': 24, r'RLVector::decode$': 24, r'c16::RlModel::': 6, r'c16::rl_builder$': 6, r'RLVector::block_for': 6,
        r'SampleIndex::new': 6, r'IntVector as simple_sds::ops::Resize>::resize': 66, r'RLVector as simple_sds::ops::': 8, r'rl_vector::(OneIter|ZeroIter|Iter|RunIter)': 8,
        r'RLVector as std::convert::From<simple_sds::rl_vector::RLBuilder>>::from': 6, r'Vec::<u64>::extend_with$': 18}
def rluw(bound):
    d = dict(RLUW)
    if bound == '7':
        d.update({r'RLBuilder::encode$': 2, r'RLVector::decode$': 3, r'IntVector as simple_sds::ops::Resize>::resize': 2})
    elif bound == '1 << 20':
        d.update({r'RLBuilder::encode$': 8, r'RLVector::decode$': 9, r'IntVector as simple_sds::ops::Resize>::resize': 2})
    return d


for (steps, bound, conv, tier) in ((1, 'usize::MAX', False, 'quick'), (2, 'usize::MAX', False, 'quick'), (3, 'usize::MAX', False, 'deep'),
                                   (2, '7', True, 'deep'), (3, '7', True, 'deep'), (2, '1 << 20', True, 'deep'), (3, '1 << 20', True, 'deep'), (2, 'usize::MAX', True, 'deep')):
    inst(P, 'c16_rl_steps%d_%s_%s' % (steps, {'usize::MAX': 'any', '7': 'tiny', '1 << 20': 'small'}[bound], 'convert' if conv else 'observe'),
         'c16::rl_builder(%d, %s, %s)' % (steps, bound, 'true' if conv else 'false'), tier=tier, unwind=10, unwindset=rluw(bound), stubs=RLSTUBS,
         cap=1500, cap_thorough=5400, mem=30 if (conv or steps >= 3) else 12, weight=50 * steps,
         role='rl builder',
         desc='RLBuilder: %d arbitrary calls (try_set(start,len) / set_len(n), arguments %s), observables after each call%s' % (steps, 'over all usize' if bound == 'usize::MAX' else 'at most ' + bound, ', then RLVector::from and the run iterator against the accepted (merged) runs' if conv else ''),
         shape={'steps': steps, 'bound': bound, 'convert': conv})

for kinds in ('LT', 'TL', 'TT', 'TLT', 'LTT', 'TTT'):
    inst(P, 'c16_rl_seq_%s_tiny_convert' % kinds, 'c16::rl_builder_kinds(%d, 7, true, &[%s])' % (len(kinds), ', '.join('true' if c == 'T' else 'false' for c in kinds)),
         tier='deep', unwind=10, unwindset=rluw('7'), stubs=RLSTUBS, cap=1500, cap_thorough=5400, mem=30, weight=100, role='rl builder',
         desc='RLBuilder call sequence %s (T = try_set(start,len), L = set_len(n); arguments symbolic <= 7), then RLVector::from: run iterator yields exactly the accepted merged runs' % kinds,
         shape={'sequence': kinds, 'bound': 7})

extra(P, assumptions=['SparseBuilder: low width from the real parameter rule (computed natively), embedded bitvector answered by specification stubs',
                      'RLBuilder: error messages (format!) stubbed to empty strings; allocation stubs (fixed 1024-bit buffers, no-grow push); SampleIndex::parameters closed form',
                      'set()/extend() are only exercised with valid arguments (their documented panic on invalid input is not an obligation)'],
      coverage={'outside_bounds': ['histories longer than capacity+1 calls (sparse) / 3 calls (run-length)', 'RLBuilder values >= 2^20 together with conversion beyond 2 calls']})
