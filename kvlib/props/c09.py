from kvlib.registry import inst, extra

P = 'C09'
for l in (0, 1, 64, 65, 130):
    inst(P, 'c09_bv_out_of_range_l%d' % l, 'c09::bv_out_of_range(%d)' % l, unwind=26, tier='quick' if l in (0, 65) else 'thorough',
         desc='BitVector %d symbolic bits: rank(i>=len)=count_ones, select/select_zero(r>=count)=None, *_iter empty; all usize' % l, shape={'len': l})
for l in (1, 65):
    inst(P, 'c09_bv_pred_succ_beyond_l%d' % l, 'c09::bv_pred_succ_beyond(%d)' % l, unwind=26, role='bitvector predecessor/successor at value >= len',
         desc='BitVector (all-zero, %d bits, real rank support): successor(v>=len) empty, predecessor(v>=len)=predecessor(len-1), v up to usize::MAX' % l, shape={'len': l})
for l in (0, 5, 64, 70):
    for k, kind in enumerate(('iter', 'one_iter', 'zero_iter')):
        inst(P, 'c09_bv_%s_nth_l%d' % (kind, l), 'c09::bv_iter_nth(%d, %d)' % (l, k), unwind=26, unwindset={r'c09::bv_iter_nth': 5}, cap=600,
             tier='quick' if l in (5, 64) else 'thorough', role='bitvector %s nth' % kind,
             desc='BitVector %s over %d symbolic bits: nth/nth_back(n) for all usize n after a consumed prefix of 0..3 items' % (kind, l), shape={'len': l, 'iter': kind})
for (w, n) in ((13, 5), (64, 3), (1, 0)):
    inst(P, 'c09_access_iter_nth_w%d_n%d' % (w, n), 'c09::access_iter_nth(%d, %d)' % (w, n), unwind=12, tier='quick' if n == 5 else 'thorough',
         desc='AccessIter<IntVector> %dx%d: nth/nth_back for all usize n after a prefix; get_or all indices' % (w, n), shape={'width': w, 'len': n})
inst(P, 'c09_ctor_errors', 'c09::ctor_errors()', unwind=4, desc='IntVector::new/with_capacity/with_len reject width 0 and >64; SparseBuilder::new rejects ones > universe: Err, no panic, all usize')
inst(P, 'c09_rl_try_set', 'c09::rl_try_set()', unwind=24, cap=600, stubs=['nofmt'], mem=8, desc='RLBuilder::try_set: two calls with all usize (start, len): Err exactly when out of order or overflowing, state unchanged on Err')

extra(P, assumptions=['out-of-range instances build no support structure: the documented out-of-range answers are decided before any support is consulted (in-range: C01)',
                      'C02/C03/C15 instances already range over all usize arguments and are part of this property too'],
      coverage={'outside_bounds': ['bitvectors longer than 130 bits', 'iterator prefixes longer than 3 items']})
