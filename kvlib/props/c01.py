from kvlib.registry import inst, extra

P = 'C01'
ALLOC = ['rawvec_fixed', 'rawvec_reserve', 'vec_push']
for l in (0, 1, 63, 64, 65, 128, 130):
    inst(P, 'c01_basic_l%d' % l, 'c01::basic(%d)' % l, unwind=26, tier='quick' if l in (0, 65, 130) else 'thorough',
         desc='BitVector::from(RawVector): len/count_ones/count_zeros/get(all i)/round trip, %d symbolic bits' % l, shape={'len': l})
for l in (0, 1, 64, 65, 129):
    inst(P, 'c01_from_iter_l%d' % l, 'c01::from_iter(%d)' % l, unwind=132, tier='quick' if l in (0, 65) else ('deep' if l == 129 else 'thorough'),
         desc='FromIterator<bool> == From<RawVector>, %d symbolic bits' % l, shape={'len': l}, cap=600)
for l in (1, 63, 64, 65, 511, 512, 513, 1023, 1024, 1101, 1536):
    inst(P, 'c01_rank_l%d' % l, 'c01::rank(%d)' % l, unwind=26, tier='quick' if l in (1, 64, 65, 513, 1101) else 'thorough', cap=600, weight=l,
         desc='rank/rank_zero with the real RankSupport::new: %d symbolic bits, index over all usize' % l, shape={'len': l})
def select_unwindset(l):
    return {
        r'SelectSupport::<.*>::new$#2': 3,      # outer loop: one superblock
        r'SelectSupport::<.*>::new$#0': l + 2,  # long superblock: one entry per value
        r'SelectSupport::<.*>::new$#1': 3,      # short superblock: one block
        r'IntVector as simple_sds::ops::Pack>::pack$': l + 2,
        r'AccessIter<.*IntVector> as std::iter::Iterator>::fold': l + 2,
        r'OneIter<.*> as std::iter::Iterator>::nth$': 3,
        r'OneIter<.*> as std::iter::Iterator>::next$': 3,
        r'OneIter<.*> as std::iter::DoubleEndedIterator>::next_back$': 3,
        r'SelectSupport::<.*>::select_unchecked$': 3,
        r'RankSupport::new$': 3,
        r'RawVector::count_ones$': 3,
        r'Vec::<u64>::extend_with$': 18,
        r'c01::any_bits$': 3,
    }


for l in (1, 2, 7, 12):
    for kind in ('select', 'select_zero', 'select_iter', 'select_zero_iter', 'pred_succ'):
        for regime in ('short', 'long'):
            q = (l == 7 and kind in ('select', 'select_zero')) or (l == 2 and kind in ('select_iter', 'select_zero_iter', 'pred_succ'))
            inst(P, 'c01_%s_%s_l%d' % (kind, regime, l), 'c01::%s(%d, %s)' % (kind, l, 'true' if regime == 'long' else 'false'), unwind=26, unwindset=select_unwindset(l),
                 stubs=ALLOC, tier='quick' if q else ('deep' if (l == 12 or (l == 7 and kind == 'pred_succ')) else 'thorough'),
                 cap=900, cap_thorough=3600, mem=10, weight=100 + l,
                 desc='%s with the real SelectSupport::new, %s-superblock path: %d symbolic bits, argument over all usize' % (kind, regime, l),
                 shape={'len': l, 'regime': regime})

extra(P, assumptions=[
    'R2 allocation stubs in the select instances (RawVector::new/with_capacity -> fixed 1024-bit buffer, RawVector::reserve asserts it suffices, Vec::push no-grow)',
    'R4: instances tagged long force the explicit-offset regime through the cfg(simple_sds_verif) hook VERIF_FORCE_LONG (SelectSupport::new then uses threshold 0), under Kani and in native replay alike; instances tagged short run the real rule, which picks block samples at these sizes; so both code paths of new() and select() run on one-word vectors; the real threshold rule for larger vectors is outside the claim',
], options={'no_reach': True}, coverage={'outside_bounds': [
    'select/select_zero/predecessor/successor on vectors longer than 12 bits: measured 33 s at 1 bit, 349 s at 7 bits, 561 s at 12 bits, 20 bits exceeds 16 GB (811k SSA steps, 55M clauses: every IntVector push/read is a symbolic-offset access into one of several aliased heap buffers)',
    'more than one select superblock (> 4096 set or unset bits): the 2*superblock sample indexing across superblocks is not executed',
    'rank beyond 1536 bits (3 blocks)',
    'BMI2 in-word select (C17 covers it separately)']})
