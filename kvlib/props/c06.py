from kvlib.registry import inst, extra

P = 'C06'
inst(P, 'c06_scalars', 'c06::scalars()', unwind=258, desc='u64, usize, (u64,u64): round trip + concatenation, all values')
for n in (0, 1, 2, 4):
    inst(P, 'c06_vec_u64_n%d' % n, 'c06::vec_u64(%d)' % n, unwind=258, tier='quick' if n in (0, 4) else 'thorough', desc='Vec<u64> len %d symbolic items' % n, shape={'len': n})
    inst(P, 'c06_vec_pair_n%d' % n, 'c06::vec_pair(%d)' % n, unwind=258, unwindset={r'SlicePartialEq<\(u64, u64\)>>::equal_same_length': 6}, tier='quick' if n in (0, 4) else 'thorough', desc='Vec<(u64,u64)> len %d' % n, shape={'len': n})
    inst(P, 'c06_option_vec_n%d' % n, 'c06::option_vec(%d)' % n, unwind=258, tier='quick' if n in (0, 2) else 'thorough', desc='Option<Vec<u64>> Some/None/nested, inner len %d' % n, shape={'len': n}, cap=600)
for n in (0, 1, 7, 8, 9, 16, 17):
    inst(P, 'c06_bytes_n%d' % n, 'c06::bytes(%d)' % n, unwind=258, tier='quick' if n in (0, 7, 8, 9) else 'thorough', desc='Vec<u8> len %d (padding to 8 bytes)' % n, shape={'len': n})
    inst(P, 'c06_string_n%d' % n, 'c06::string(%d)' % n, unwind=258, tier='quick' if n in (0, 9) else 'thorough', desc='String len %d, ASCII content' % n, shape={'len': n}, cap=600, stubs=['utf8'])
for l in (0, 1, 63, 64, 65, 128, 191):
    inst(P, 'c06_raw_l%d' % l, 'c06::raw(%d)' % l, unwind=258, tier='quick' if l in (0, 64, 65) else 'thorough', desc='RawVector %d symbolic bits (+ Option<RawVector>)' % l, shape={'len': l}, cap=600)
for (w, n) in ((1, 5), (7, 0), (13, 5), (13, 6), (32, 2), (63, 3), (64, 1), (64, 3)):
    inst(P, 'c06_int_w%d_n%d' % (w, n), 'c06::int(%d, %d)' % (w, n), unwind=258, tier='quick' if (w, n) in ((13, 5), (64, 3), (7, 0)) else 'thorough', desc='IntVector width %d, %d symbolic items' % (w, n), shape={'width': w, 'len': n}, cap=600)
inst(P, 'c06_concat_mixed', 'c06::concat_mixed(65, 13, 5, 9)', unwind=258, cap=900, desc='RawVector(65 bits) | IntVector(13x5) | Vec<u8>(9) pairwise concatenated in one stream', shape={'raw': 65, 'int': [13, 5], 'bytes': 9})
inst(P, 'c06_size_by_params', 'c06::size_by_params()', unwind=2, cap=600, desc='RawVector::size_by_params all capacities; IntVector::size_by_params all (n < 2^57, w 1..=64)')

from kvlib import native
from kvlib.props.c02 import SPARSE, sparse_uw
from kvlib.props.c04 import uw as wm_uw, feasible_fw, bit_len
from kvlib.props.c03 import rl_uw


class SC:
    def __init__(self, n, m):
        self.a = (n, m)

    def __str__(self):
        return 'c06::sparse(%d, %d, %d)' % (self.a[0], self.a[1], native.sparse_width(self.a[0], self.a[1], False))


class LUW(dict):
    def __init__(self, n, m):
        super().__init__()
        self._a, self._done = (n, m), False

    def items(self):
        if not self._done:
            self._done = True
            self.update(sparse_uw(self._a[0], self._a[1], None, False))
            self.update({r'memcmp': 260, r'c06::': 8})
        return super().items()

    def __bool__(self):
        return True


for (n, m) in ((12, 3), (0, 0), ((1 << 64) - 1, 1)):
    inst(P, 'c06_sparse_n%d_m%d' % (n, m), SC(n, m), tier='deep', unwind=258, stubs=SPARSE, cap=900, cap_thorough=3600, mem=30,
         desc='SparseVector (built by the real builder, universe %d, %d symbolic positions): serialize -> exact size -> load -> == and select' % (n, m), shape={'universe': n, 'ones': m}).unwindset = LUW(n, m)
for (n, maxv) in ((3, 1), (4, 2)):
    fw = sorted(feasible_fw(n, maxv))[0]
    d = wm_uw(n, bit_len(maxv))
    d.update({r'memcmp': 260, r'c06::': 8})
    inst(P, 'c06_wm_n%d_max%d' % (n, maxv), 'c06::wavelet_matrix(%d, %d, %d)' % (n, maxv, fw), tier='deep', unwind=258, unwindset=d, stubs=['bvspec'], cap=900, cap_thorough=3600, mem=30,
         desc='WaveletMatrix (%d symbolic items <= %d, assembled from parts): serialize -> exact size -> load -> == and get' % (n, maxv), shape={'len': n, 'max_value': maxv})
for name, (units, sw) in {'one_small': ([(1, 1)], 1), 'two_small': ([(1, 1), (1, 2)], 1)}.items():
    d = rl_uw(units)
    d.update({r'memcmp': 260, r'c06::': 8})
    inst(P, 'c06_rl_%s' % name, 'c06::rl(&[%s], %d)' % (', '.join('(%d, %d)' % u for u in units), sw), tier='deep', unwind=258, unwindset=d,
         stubs=['simple_sds::rl_vector::index::SampleIndex::new => stubs::sample_index_new_contract'], cap=900, cap_thorough=3600, mem=30,
         desc='RLVector (%s, symbolic runs, assembled from parts): serialize -> exact size -> load -> ==' % name, shape={'runs': units})

extra(P, assumptions=['writer = &mut [u8] over a fixed 256-byte array, reader = &[u8]: no I/O, no allocation failure', 'String content restricted to ASCII'],
      coverage={'outside_bounds': ['values whose serialization exceeds 256 bytes', 'non-ASCII strings']})
