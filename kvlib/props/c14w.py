"""C14, writer half: failing sinks and the buffered file writers against a failing (ghost) file.
Instances are registered under property id 'C14' with names c14w_*; kvlib/props/c14.py holds the
truncated-load half. Stub set 'ghost_file' is defined in kvlib/props/c12.py (imported first)."""
from kvlib.registry import inst, extra, stubset, STUBS
from kvlib import registry as _registry

P = 'C14'

if 'ghost_file' not in STUBS:  # normally registered by c12.py
    stubset('ghost_file', [
        ('std::fs::OpenOptions::open', 'stubs_file::ghost_open'),
        ('<std::fs::File as std::io::Write>::write', 'stubs_file::ghost_write'),
        ('<std::fs::File as std::io::Seek>::seek', 'stubs_file::ghost_seek'),
    ])
# the documented "may panic from I/O errors" of push: the path is cut where the REAL code unwraps the error
stubset('push_panic_cut', [('core::result::unwrap_failed', 'stubs_file::unwrap_failed_cut')])
# An io::Error's tag bits are not resolved during symbolic execution, so the `Interrupted => retry` arm of the
# real write_all keeps its loop open up to the bound: give that loop its true bound (short write + failing write = 2).
WA = {r'io::Write>::write_all$': 3}
stubset('no_eintr', [('std::io::Error::is_interrupted', 'stubs_file::never_interrupted')])
GHOST = dict(stubs=['ghost_file', 'no_eintr'], models=['close_model.c'], unwind=98, unwindset=WA)
FAIL = dict(stubs=['ghost_file', 'push_panic_cut', 'no_eintr'], models=['close_model.c'], unwind=98, unwindset=WA)

# (1) failing sink: no stubs at all
for l in (0, 1, 64, 65, 128, 191):
    inst(P, 'c14w_sink_raw_l%d' % l, 'c14w::sink_raw(%d)' % l, unwind=98, unwindset=WA, stubs=['no_eintr'], tier='quick' if l in (0, 65) else 'thorough', shape={'len': l},
         desc='RawVector %d symbolic bits into a sink that fails after b < size bytes (b, short/abrupt symbolic): Err, <= b bytes taken, prefix' % l)
for (w, n) in ((7, 0), (13, 5), (64, 3), (1, 5), (63, 3), (32, 2)):
    inst(P, 'c14w_sink_int_w%d_n%d' % (w, n), 'c14w::sink_int(%d, %d)' % (w, n), unwind=98, unwindset=WA, stubs=['no_eintr'], tier='quick' if (w, n) in ((7, 0), (13, 5)) else 'thorough',
         shape={'width': w, 'len': n}, desc='IntVector %dx%d into a failing sink' % (n, w))
for n in (0, 1, 4):
    inst(P, 'c14w_sink_vec_u64_n%d' % n, 'c14w::sink_vec_u64(%d)' % n, unwind=98, unwindset=WA, stubs=['no_eintr'], tier='quick' if n in (0, 4) else 'thorough', shape={'len': n},
         desc='Vec<u64> len %d into a failing sink' % n)
    inst(P, 'c14w_sink_option_vec_n%d' % n, 'c14w::sink_option_vec(%d)' % n, unwind=98, unwindset=WA, stubs=['no_eintr'], tier='quick' if n == 1 else 'thorough', shape={'len': n},
         desc='Option<Vec<u64>> Some(len %d) and None into a failing sink' % n)
for n in (0, 1, 8, 9, 17):
    inst(P, 'c14w_sink_bytes_n%d' % n, 'c14w::sink_bytes(%d)' % n, unwind=98, unwindset=WA, stubs=['no_eintr'], tier='quick' if n in (0, 9) else 'thorough', shape={'len': n},
         desc='Vec<u8> len %d (body + padding are separate writes) into a failing sink' % n)
inst(P, 'c14w_sink_option_raw_l65', 'c14w::sink_option_raw(65)', unwind=98, unwindset=WA, stubs=['no_eintr'], tier='thorough', shape={'len': 65}, desc='Option<RawVector> into a failing sink')

# (2) buffered writers. Shapes with a non-empty final flush so that close() itself is reached with work to do,
# and shapes with flushes during the pushes (push-panic path cut, see FAIL).
MODEL = {'limit': 'c14w::LIMIT', 'budget': 'c14w::BUDGET'}
INT = [((13, 3, 3), True), ((13, 3, 4), False), ((63, 1, 3), True), ((64, 2, 3), True), ((33, 1, 4), False), ((64, 2, 5), False), ((13, 3, 6), False), ((40, 2, 5), False)]
for (w, b, k), quick in INT:
    for m in ('limit', 'budget'):
        inst(P, 'c14w_int_%s_w%d_b%d_k%d' % (m, w, b, k), 'c14w::int_fail(%d, %d, %d, %s)' % (w, b, k, MODEL[m]),
             tier='quick' if quick and (m == 'limit' or (w, b, k) == (63, 1, 3)) else 'thorough', cap=600, mem=10 if k >= 5 else 4,
             shape={'width': w, 'buf_items': b, 'pushes': k, 'fault': m},
             desc='IntVectorWriter under every %s that rules out the complete file: creation succeeds; then push panics (documented; path cut at the real unwrap) or close() Err -- never Ok; retry Err too'
                  % ('file-size limit 32 <= L < size' if m == 'limit' else 'total byte budget 32 <= b < bytes of a successful run (short or abrupt)'), **FAIL)
B = 100
RAW = [((64, [63, 64, 1, B], 0), True), ((64, [63, B, B, 64], 2), True), ((0, [B, 0, 1, 63], 1), False), ((128, [64, 63, 64, 64, B, B], 2), False), ((64, [B], 0), False)]
for (bb, ops, h), quick in RAW:
    lit = '&[%s]' % ', '.join('c12::BIT' if o == B else str(o) for o in ops)
    tag = '_'.join('b' if o == B else str(o) for o in ops)
    for m in ('limit', 'budget'):
        inst(P, 'c14w_raw_%s_buf%d_h%d_%s' % (m, bb, h, tag), 'c14w::raw_fail(%d, %s, %d, %s)' % (bb, lit, h, MODEL[m]),
             tier='quick' if quick and m == 'limit' else 'thorough', cap=600, mem=10 if bb >= 128 else 4,
             shape={'buf_bits': bb, 'ops': ['bit' if o == B else o for o in ops], 'user_header_words': h, 'fault': m},
             desc='RawVectorWriter (close_with_header, %d-word user header) under every %s fault that rules out the complete file: never Ok from close' % (h, m), **FAIL)
for (w, b, k) in ((13, 3, 4), (64, 1, 3), (63, 1, 4)):
    inst(P, 'c14w_int_limit_exact_w%d_b%d_k%d' % (w, b, k), 'c14w::int_limit_exact(%d, %d, %d)' % (w, b, k), tier='quick' if w == 63 else 'thorough',
         shape={'width': w, 'buf_items': b, 'pushes': k}, desc='positive control: file-size limit == final size suffices, file complete', **GHOST)
inst(P, 'c14w_open_fail', 'c14w::open_fail(13, 3)', desc='open() fails: both writers return Err from creation, nothing opened/closed/written', **GHOST)

# Instances in which the REAL code drops an io::Error (Drop of a writer whose close() fails). The drop glue of
# io::Error is opaque to symbolic execution and recurses through an unresolved indirect call up to the recursion
# bound = --unwind (measured: x2.8 per level, unwind 98 does not finish). So: small global unwind, true bounds per loop.
DEEP = dict(stubs=['ghost_file', 'push_panic_cut', 'no_eintr'], models=['close_model.c'], unwind=3, cap=900, cap_thorough=1800, mem=12, tier='thorough', unwindset={
    r'io::Write>::write_all$': 3,
    r'^c12::|^c14w::|^c05::|^stubs_file::': 98,
    r'File as std::io::Write>::write$': 98,       # ghost_write (a stub carries the name of what it replaces)
    r'^__rust_|^mem(cmp|cpy|set|move)$|^strlen$': 98,
    r'path::|slice::Iter|slice::memchr|os_str::': 12,
})
for m in ('limit', 'budget'):
    inst(P, 'c14w_create_fail_%s' % m, 'c14w::create_fail(13, 3, %s)' % MODEL[m],
         shape={'width': 13, 'buf_items': 3, 'fault': m + ' < 32 bytes'},
         desc='creation under every %s too small for the placeholder header: with_buf_len returns Err, no panic (incl. Drop of the half-built writer)' % m, **DEEP)
for (w, b, k) in ((13, 3, 1), (13, 3, 3)):
    inst(P, 'c14w_drop_after_fail_w%d_b%d_k%d' % (w, b, k), 'c14w::drop_after_fail(%d, %d, %d)' % (w, b, k),
         shape={'width': w, 'buf_items': b, 'pushes': k, 'fault': 'limit'},
         desc='close() fails under every file-size limit 32 <= L < size, then the open writer is dropped: errors ignored, no panic, descriptor closed once', **dict(DEEP, unwind=2))

extra(P, assumptions=[
    'c14w failing sink: a Write impl in the harness that accepts b bytes in total, b < size symbolic; the write crossing the budget is short or fails outright (symbolic choice); later writes fail with io::ErrorKind::Other; the real write_all loop runs over it; std::io::Error::is_interrupted is stubbed to false (no error in these harnesses has kind Interrupted; the tag bits of io::Error are opaque to symbolic execution, the retry arm of write_all would otherwise stay open)',
    'c14w buffered writers: ghost file (harness/src/stubs_file.rs; OpenOptions::open, <File as Write>::write, <File as Seek>::seek replaced; real write_all loop; close(2) from models/close_model.c). Fault models: LIMIT = file-size limit as Linux RLIMIT_FSIZE (write at/after the limit fails, straddling write is short; native replay uses the real setrlimit(RLIMIT_FSIZE) with SIGXFSZ ignored); BUDGET = the device takes b bytes in total counting the header rewrite (ghost only: native replay reports not-applicable, so a counterexample there is reported as inconclusive, never as a pass)',
    'c14w: a failing write(2) is modelled as write() returning Ok(0), which the REAL write_all turns into Err(ErrorKind::WriteZero); it is not modelled as Err(e) because the drop glue of io::Error inside write_all does not finish under CBMC. The writers never inspect the error value (they propagate it with ? or unwrap it). Natively the kernel returns EFBIG',
    'c14w: the fault is armed after creation has written the placeholder header (equivalent to a fault range that starts at the header size); faults persist (a write that failed keeps failing); the content of the ghost file is not kept in fault instances (lengths only)',
    'c14w push panics: push documents "May panic from I/O errors". core::result::unwrap_failed is replaced by a path cut (assume(false)), so an execution ends where the REAL code unwraps the flush error; if push swallowed the error instead, the execution would continue to the assertion that close() is not Ok. A panic raised in any other way than Result::unwrap/expect would be reported as a failure',
    'c14w: results of type io::Result are inspected with is_err() and then forgotten (mem::forget) in the harness, writers are forgotten after a failed close: running the drop glue of io::Error does not finish under CBMC (indirect call through core::io::OsFunctions with every drop function as candidate, recursion up to the unwind bound)',
], coverage={'outside_bounds': list(_registry._EXTRA.get(P, {}).get('coverage', {}).get('outside_bounds', [])) + [   # extra() replaces the list: keep what kvlib/props/c14.py (loaded first) registered
    'c14w: writer shapes beyond those listed (<= 6 pushes, buffers <= 128 bits, files <= 96 bytes); the 8 MiB default buffer of ::new',
    'c14w: Drop of a writer whose close() failed and creation under a fault run the real drop glue of io::Error: only decided at recursion bound 2-3 with per-loop bounds (instances c14w_create_fail_*, c14w_drop_after_fail_*, thorough tier); at unwind 3 the 3-push drop instance ran out of 12 GB',
    'c14w: a mutant that swallows the flush error by DROPPING it (let _ = self.flush(..)) makes the instance run out of memory (inconclusive, exit 2), it is only reported as VIOLATION when the error is swallowed without running its drop glue',
    'c14w: transient faults. Observed natively outside the bound (not an instance): after close() failed with a partial write under RLIMIT_FSIZE, lifting the limit and calling close() again returns Ok(()) and leaves a file with the partial bytes duplicated (44 instead of 40 bytes for 3 x 13 bit)',
    'c14w: errors from seek(2)/close(2) (the writers ignore close errors by design: File is dropped); what the file contains after a reported failure',
]})
