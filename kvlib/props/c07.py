from kvlib.registry import inst, extra
from kvlib import native
from kvlib.props.c02 import SPARSE, sparse_uw
from kvlib.props.c04 import doc_uw, uw as wm_uw, feasible_fw, bit_len
from kvlib.props.c01 import select_unwindset, ALLOC
from kvlib.props.c03 import rl_uw

P = 'C07'
U = 66


def base_uw(extra=None):
    d = doc_uw()
    d.update({r'c07::': 20, r'c07::elements_of': 4, r'memcmp': 520})
    d.update(extra or {})
    return d


for l in (0, 1, 64, 65, 130):
    inst(P, 'c07_raw_to_doc_l%d' % l, 'c07::raw_to_doc(%d)' % l, tier='quick' if l in (0, 65) else 'thorough', unwind=U, unwindset=base_uw(), cap=600,
         desc='library -> document: RawVector %d symbolic bits decodes by the document rules (length, element count, little-endian bit order, zero unused bits)' % l, shape={'len': l})
for (w, n) in ((13, 5), (64, 2), (1, 7), (7, 0), (33, 4)):
    inst(P, 'c07_int_to_doc_w%d_n%d' % (w, n), 'c07::int_to_doc(%d, %d)' % (w, n), tier='quick' if (w, n) in ((13, 5), (7, 0)) else 'thorough', unwind=U, unwindset=base_uw(), cap=600,
         desc='library -> document: IntVector %dx%d decodes to the same items' % (w, n), shape={'width': w, 'len': n})
    inst(P, 'c07_doc_to_int_w%d_n%d' % (w, n), 'c07::doc_to_int(%d, %d)' % (w, n), tier='quick' if (w, n) in ((13, 5),) else 'thorough', unwind=U, unwindset=base_uw(), cap=600,
         desc='document -> library: an IntVector file written from the document rules loads to the same items', shape={'width': w, 'len': n})
for (l, mask, tier) in ((65, 0, 'quick'), (65, 1, 'quick'), (2, 7, 'deep'), (0, 0, 'thorough'), (7, 6, 'deep'), (130, 1, 'deep')):
    uwd = base_uw(select_unwindset(l))
    inst(P, 'c07_bitvector_to_doc_l%d_m%d' % (l, mask), 'c07::bitvector_to_doc(%d, %d)' % (l, mask), tier=tier, unwind=U, unwindset=uwd, stubs=ALLOC if mask & 6 else [], cap=900, mem=12,
         desc='library -> document: BitVector %d bits with supports %d: ones, raw bitvector, three optionals whose lengths account for the whole file' % (l, mask), shape={'len': l, 'supports': mask})
for l in (0, 65, 130):
    inst(P, 'c07_doc_to_bitvector_l%d' % l, 'c07::doc_to_bitvector(%d)' % l, tier='deep', unwind=U, unwindset=base_uw({r'RankSupport::new$#0': 4, r'RankSupport::new$#1': 10}), cap=900, mem=30,
         desc='document -> library: a support-free BitVector file loads, reports no supports, rank after enable_rank is exact', shape={'len': l})


class SC:
    def __init__(self, fmt, n, m, *rest):
        self.a = (fmt, n, m, rest)

    def __str__(self):
        fmt, n, m, rest = self.a
        return fmt % ((n, m, native.sparse_width(n, m, False)) + rest)


class LUW(dict):
    def __init__(self, n, m, w=None):
        super().__init__()
        self._a, self._done = (n, m, w), False

    def items(self):
        if not self._done:
            self._done = True
            n, m, w = self._a
            d = sparse_uw(n, m, w, False)
            d.update(base_uw())
            d.update({r'doc::enc_sparse': m + 2})
            self.update(d)
        return super().items()

    def __bool__(self):
        return True


for (n, m, tier) in ((12, 3, 'deep'), (6, 2, 'deep'), (0, 0, 'quick'), (1 << 63, 2, 'deep'), ((1 << 64) - 1, 1, 'deep')):
    inst(P, 'c07_sparse_to_doc_n%d_m%d' % (n, m), SC('c07::sparse_to_doc(%d, %d, %d)', n, m), tier=tier, unwind=U, stubs=SPARSE, cap=1200, cap_thorough=3600, mem=30,
         desc='library -> document: SparseVector (universe %d, %d symbolic positions) written by the library decodes by the Elias-Fano rules of the document; exactly ceil(n/2^w) buckets' % (n, m),
         shape={'universe': n, 'ones': m}).unwindset = LUW(n, m)
for (n, m, w, tier) in ((3, 1, 1, 'quick'), ((1 << 64) - 1, 1, 63, 'quick'), (12, 3, 1, 'quick'), (12, 3, 2, 'quick'), (12, 3, 3, 'thorough'), (12, 3, 5, 'thorough'), (6, 2, 1, 'thorough'), (1 << 40, 2, 37, 'deep')):
    for q, qn in enumerate(('select', 'rank_get', 'select_zero', 'pred_succ')):
        inst([P, 'C19'] if n == 3 else P, 'c07_doc_to_sparse_n%d_m%d_w%d_%s' % (n, m, w, qn), 'c07::doc_to_sparse(%d, %d, %d, %d)' % (n, m, w, q), tier=tier if (qn in ('select',) or (n == 3 and qn == 'rank_get')) else 'deep', unwind=U,
             stubs=['bvspec'], cap=1200, cap_thorough=3600, mem=14 if qn == 'select' else 30,
             desc='document -> library: a SparseVector file with low width %d (any admissible choice) and NO support structures loads and answers %s exactly; the loader must enable what it needs' % (w, qn),
             shape={'universe': n, 'ones': m, 'low_width': w, 'query': qn}).unwindset = LUW(n, m, w)

for (n, maxv, tier) in ((3, 1, 'quick'), (4, 2, 'thorough'), (5, 5, 'thorough')):
    width = bit_len(maxv)
    for fw in sorted(feasible_fw(n, maxv)):
        d = wm_uw(n, width)
        d.update(base_uw())
        inst(P, 'c07_wm_to_doc_n%d_max%d_fw%d' % (n, maxv, fw), 'c07::wm_to_doc(%d, %d, %d)' % (n, maxv, fw), tier=tier if n == 3 else 'deep', unwind=U, unwindset=d, stubs=['bvspec'], cap=900, mem=12,
             desc='library -> document: WaveletMatrix serializes as len, width, one bitvector per level (stable partition order), first[] at its minimal width', shape={'len': n, 'max_value': maxv, 'first_width': fw})
        inst(P, 'c07_doc_to_wm_n%d_max%d_fw%d' % (n, maxv, fw), 'c07::doc_to_wm(%d, %d, %d)' % (n, maxv, fw), tier='deep', unwind=U, unwindset=d, stubs=['bvspec'], cap=1200, cap_thorough=3600, mem=30,
             desc='document -> library: a WaveletMatrix file written from the document rules (no supports) loads; get and rank exact', shape={'len': n, 'max_value': maxv, 'first_width': fw})
    d = wm_uw(n, width)
    d.update(base_uw({r'sort': 40, r'start_offsets': (1 << width) + n + 4, r'insertion_sort|insert_tail|sift|heapsort|ipnsort|quicksort|small_sort': 40}))
    inst(P, 'c07_wm_first_n%d_max%d' % (n, maxv), 'c07::wm_first(%d, %d)' % (n, maxv), tier=tier, unwind=U, unwindset=d, stubs=['rawvec_fixed', 'rawvec_reserve', 'vec_push'], cap=1200, mem=14,
         desc='first[] computed by the library (private start_offsets via hook) for %d symbolic items <= %d: definition and minimal width' % (n, maxv), shape={'len': n, 'max_value': maxv})

for name, (units, sw) in {'one_small': ([(1, 1)], 1), 'two_small': ([(1, 1), (1, 2)], 1), 'two_blocks': ([(21, 22), (11, 11)], 64)}.items():
    d = rl_uw(units)
    d.update(base_uw({r'doc::enc_rl': 24, r'doc::code_len': 4, r'c07::doc_to_rl': 10}))
    call = 'c07::doc_to_rl(&[%s], %d)' % (', '.join('(%d, %d)' % u for u in units), sw)
    inst(P, 'c07_doc_to_rl_%s' % name, call, tier='quick' if name == 'two_small' else ('thorough' if name == 'one_small' else 'deep'), unwind=U, unwindset=d,
         stubs=['simple_sds::rl_vector::index::SampleIndex::new => stubs::sample_index_new_contract'], cap=1500, mem=14,
         desc='document -> library: an RLVector file written from the document rules (runs %s) loads; run iterator yields exactly the runs' % (units,), shape={'runs': units, 'sample_width': sw})

extra(P, assumptions=[
    'the independent codec harness/src/doc.rs is written from SERIALIZATION.md only; its readings of the document are listed at the top of that file (doc_readings)',
    'direction 2 uses specification stubs for embedded bitvectors that FAIL when a query needs a support the loader never enabled',
    'writer-side choices exercised: supports absent (and present for plain bitvectors), several low widths for sparse vectors; sample widths other than the minimal one are not exercised (the document mandates the minimal width)',
], coverage={'doc_readings': ['element = little-endian u64', 'raw bitvector = bit length + vector of elements, unused bits 0', 'int vector = len, width, raw of len*width bits',
                                'bitvector = ones, raw, 3 optionals (absent = one 0 element)', 'sparse = len, high (k ones then a 0 per bucket; ceil(n/2^w) buckets), low',
                                'rl = len, ones, samples (minimal width), data (width 4): (gap, len-1) in 3-bit LE units, continuation flag 8, whole runs per 64-unit block, zero padding, none in last block',
                                'wm core = width + bitvector per level; wm = len, core, first[] minimal width, absent value -> len'],
             'outside_bounds': ['RLVector / WaveletMatrix written by the library builders from scratch (construction does not finish under CBMC); their serialize() field order is covered through parts', 'structures beyond the listed shapes']})
