from kvlib.registry import inst, extra

P = 'C13'
FS = ['mmap_fs', 'utf8']      # stub sets: std::fs for MemoryMap::new (see c18.py), ASCII-only UTF-8 validation
MODEL = ['mmap_model.c']
T = {  # case name -> (Rust type, description)
    'v0': ('c13::VecU64<0>', 'Vec<u64> x0'), 'v3': ('c13::VecU64<3>', 'Vec<u64> x3'), 'v1': ('c13::VecU64<1>', 'Vec<u64> x1'),
    'p0': ('c13::VecPair<0>', 'Vec<(u64,u64)> x0'), 'p2': ('c13::VecPair<2>', 'Vec<(u64,u64)> x2'), 'p3': ('c13::VecPair<3>', 'Vec<(u64,u64)> x3'),
    'b0': ('c13::Bytes<0>', 'Vec<u8> x0'), 'b3': ('c13::Bytes<3>', 'Vec<u8> x3'), 'b8': ('c13::Bytes<8>', 'Vec<u8> x8'), 'b9': ('c13::Bytes<9>', 'Vec<u8> x9'),
    's0': ('c13::Str<0>', 'String x0'), 's3': ('c13::Str<3>', 'String x3'), 's9': ('c13::Str<9>', 'String x9'),
    'on': ('c13::Opt<false, 0>', 'Option<Vec<u64>> None'), 'o0': ('c13::Opt<true, 0>', 'Some(Vec<u64> x0)'), 'o2': ('c13::Opt<true, 2>', 'Some(Vec<u64> x2)'),
    'ri65': ('c13::RawI<65>', 'RawVector 65 bits (+int)'), 'ri128': ('c13::RawI<128>', 'RawVector 128 bits (+int)'),
    'r0': ('c13::Raw<0>', 'RawVector 0 bits'), 'r65': ('c13::Raw<65>', 'RawVector 65 bits'), 'r128': ('c13::Raw<128>', 'RawVector 128 bits'), 'r3': ('c13::Raw<3>', 'RawVector 3 bits'),
    'i0': ('c13::Int<7, 0>', 'IntVector w7 x0'), 'i3': ('c13::Int<13, 3>', 'IntVector w13 x3'), 'i64': ('c13::Int<64, 3>', 'IntVector w64 x3'), 'i1': ('c13::Int<1, 2>', 'IntVector w1 x2'),
}


def ty(*ks):
    return ', '.join(T[k][0] for k in ks)


def ds(*ks):
    return ' | '.join(T[k][1] for k in ks)


COMMON = dict(stubs=FS, models=MODEL, unwind=26, cap=600, mem=12)

# tiling: every view at its structure start == what load() returns from the same bytes, map_offset+map_len == next start,
# the last view ends at map.len()
TILE3 = [(('v3', 'b9', 'r0'), 'quick'), (('r65', 'i3', 'v0'), 'quick'), (('p2', 's9', 'on'), 'quick'), (('o2', 'i64', 'b0'), 'quick'),
         (('i0', 'on', 'i0'), 'quick'), (('s3', 'ri128', 's0'), 'quick'), (('b8', 'o0', 'p0'), 'quick'),
         (('v1', 'p3', 'o0'), 'quick'), (('i1', 'r3', 'i0'), 'quick'), (('b3', 'v3', 'b0'), 'quick'), (('on', 'on', 'v0'), 'quick'),
         (('r0', 'r0', 'r0'), 'quick'), (('i64', 'i64', 'i0'), 'quick'), (('p3', 'p3', 'p0'), 'quick'), (('s9', 'b9', 's0'), 'quick'),
         (('ri65', 'v0', 'b0'), 'quick'), (('s3', 'r128', 's0'), 'quick')]
for ks, tier in TILE3:
    inst(P, 'c13_tile_%s' % '_'.join(ks), 'c13::tile3::<%s>(true)' % ty(*ks), tier=tier, desc='file = %s: views == load() of the same bytes, views tile the file' % ds(*ks),
         shape={'file': [T[k][1] for k in ks]}, **COMMON)
TILE2 = [(('i3', 'r0'), 'quick'), (('o2', 'on'), 'quick'), (('r65', 'o2'), 'quick'), (('r65', 'v0'), 'quick'), (('b9', 's0'), 'quick'), (('p2', 'i0'), 'quick'), (('i64', 'on'), 'quick')]
for ks, tier in TILE2:
    inst(P, 'c13_tile_%s' % '_'.join(ks), 'c13::tile2::<%s>(true)' % ty(*ks), tier=tier, desc='file = %s: views == load() of the same bytes, views tile the file' % ds(*ks),
         shape={'file': [T[k][1] for k in ks]}, **COMMON)
# the same against the values that were serialized (no load)
inst(P, 'c13_tile_nl_r65_i3_v0', 'c13::tile3::<%s>(false)' % ty('r65', 'i3', 'v0'), tier='quick', desc='file = %s: views == serialized values' % ds('r65', 'i3', 'v0'),
     shape={'file': [T[k][1] for k in ('r65', 'i3', 'v0')], 'load': False}, **COMMON)

# every offset >= file length (all usize) is refused, for each view type
for k, tier in (('v3', 'quick'), ('p2', 'quick'), ('b9', 'quick'), ('s3', 'quick'), ('o2', 'quick'), ('on', 'quick'), ('r65', 'quick'), ('i3', 'quick'), ('i0', 'quick')):
    inst(P, 'c13_badoff_%s' % k, 'c13::bad_offset::<%s>()' % ty(k, 'v0'), tier=tier, role='c13_badoff_' + ('int' if k[0] == 'i' else k[0]),
         desc='file = %s: view of the first type at any offset >= map.len() (all usize) is Err, no panic' % ds(k, 'v0'), shape={'file': [T[k][1], T['v0'][1]]}, **COMMON)

# file cut at every 8-byte boundary
TRUNC = [(('v3', 'p2'), 'quick'), (('b9', 's9'), 'quick'), (('o2', 'r65'), 'quick'), (('i3', 'o2'), 'quick'), (('r128', 'i64'), 'quick'), (('s9', 'b9'), 'quick'), (('p3', 'v3'), 'quick'),
         (('i64', 'r128'), 'quick'), (('o2', 'o2'), 'quick'), (('r65', 'on'), 'quick'), (('i1', 'b3'), 'quick')]
for ks, tier in TRUNC:
    inst(P, 'c13_trunc_%s' % '_'.join(ks), 'c13::truncated::<%s>()' % ty(*ks), tier=tier,
         desc='file = %s cut at every 8-byte boundary t in 1..total (symbolic): incomplete structure => Err, complete one unchanged' % ds(*ks),
         shape={'file': [T[k][1] for k in ks]}, **COMMON)

# thorough: every ordered pair of the eight representative shapes, tiled and truncated
REPS = ['v3', 'p2', 'b9', 's3', 'o2', 'on', 'r65', 'i3']
from kvlib import registry as _r
_have = set(i.name for i in _r._INSTANCES)
for a in REPS:
    for b in REPS:
        n = 'c13_tile_%s_%s' % (a, b)
        if n not in _have:
            inst(P, n, 'c13::tile2::<%s>(true)' % ty(a, b), tier='thorough', desc='file = %s: views == load() of the same bytes, views tile the file' % ds(a, b),
                 shape={'file': [T[a][1], T[b][1]]}, **COMMON)
        n = 'c13_trunc_%s_%s' % (a, b)
        if n not in _have:
            inst(P, n, 'c13::truncated::<%s>()' % ty(a, b), tier='thorough',
                 desc='file = %s cut at every 8-byte boundary t in 1..total (symbolic): incomplete structure => Err, complete one unchanged' % ds(a, b),
                 shape={'file': [T[a][1], T[b][1]]}, **COMMON)

extra(P, assumptions=[
    'reference for a view = what Serialize::load returns from the bytes at the same offset of the same file image',
    'file content = bytes produced by the real Serialize::serialize of 2-3 values of concrete shape and symbolic content (<= 24 words), handed to the OS model as the file; MemoryMap::new runs on the std::fs stubs and models/mmap_model.c exactly as in C18 (file always openable, mapping never refused here)',
    'the mapping object ends at the file length rounded up to whole words (not at the page end): any access past the file through a view is reported',
    'String content restricted to ASCII (stub set utf8 replaces std::str::from_utf8 / String::from_utf8)',
    'truncation t = 0 is the empty file, which MemoryMap::new must refuse: covered by C18',
    'native replay writes the same bytes to a real temp file and maps it with the real mmap',
], coverage={'outside_bounds': [
    'files longer than 24 words / more than 3 structures / structures with more than 3 items (9 bytes, 128 bits)',
    'file content not written by the library (adversarial length fields)', 'offsets inside the file that are not structure starts',
    'non-ASCII strings', 'views of other types than the seven listed (e.g. nested MappedOption)', 'concurrent modification of the file']})
