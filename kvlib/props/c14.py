from kvlib.registry import inst, extra

P = 'C14'
U = 258
inst(P, 'c14_scalars', 'c14::scalars()', unwind=U, desc='u64 / (u64,u64): every strict byte prefix fails to load')
for n in (0, 2, 4):
    inst(P, 'c14_vec_u64_n%d' % n, 'c14::vec_u64(%d)' % n, unwind=U, tier='quick' if n in (0, 2) else 'thorough', desc='Vec<u64> len %d cut at every byte' % n, shape={'len': n}, cap=600)
    inst(P, 'c14_vec_pair_n%d' % n, 'c14::vec_pair(%d)' % n, unwind=U, tier='quick' if n == 2 else 'thorough', desc='Vec<(u64,u64)> len %d cut at every byte' % n, shape={'len': n}, cap=600)
    inst(P, 'c14_option_vec_n%d' % n, 'c14::option_vec(%d)' % n, unwind=U, tier='quick' if n == 2 else 'thorough', desc='Option<Vec<u64>> Some/None cut at every byte' , shape={'len': n}, cap=600)
    inst(P, 'c14_skip_option_intact_n%d' % n, 'c14::skip_option_intact(%d)' % n, unwind=U, unwindset={r'stack_buffer_copy': 4, r'fill_with': 8 * (n + 2) + 2}, tier='quick' if n == 2 else 'thorough', cap=900, mem=8, role='skip_option intact',
         desc='skip_option lands exactly past an intact Option<Vec<u64>> (inner len %d)' % n, shape={'len': n})
    inst(P, 'c14_skip_option_cut_n%d' % n, 'c14::skip_option_cut(%d)' % n, unwind=U, unwindset={r'stack_buffer_copy': 4, r'fill_with': 8 * (n + 2) + 2}, tier='quick' if n in (0, 2) else 'thorough', cap=900, mem=8, role='skip_option cut',
         desc='skip_option on a stream cut at any byte inside the optional is an error (inner Vec<u64> len %d)' % n, shape={'len': n})
for n in (0, 7, 9):
    inst(P, 'c14_bytes_n%d' % n, 'c14::bytes(%d)' % n, unwind=U, tier='quick' if n in (7, 9) else 'thorough', desc='Vec<u8> len %d cut at every byte (incl. inside the padding)' % n, shape={'len': n}, cap=600)
    inst(P, 'c14_string_n%d' % n, 'c14::string(%d)' % n, unwind=U, tier='quick' if n == 9 else 'thorough', stubs=['utf8'], desc='String len %d (ASCII) cut at every byte' % n, shape={'len': n}, cap=600)
for l in (0, 1, 64, 65, 130):
    inst(P, 'c14_raw_l%d' % l, 'c14::raw(%d)' % l, unwind=U, tier='quick' if l in (0, 65) else 'thorough', desc='RawVector %d bits cut at every byte' % l, shape={'len': l}, cap=600)
for (w, n) in ((13, 5), (64, 2), (7, 0), (1, 3)):
    inst(P, 'c14_int_w%d_n%d' % (w, n), 'c14::int(%d, %d)' % (w, n), unwind=U, tier='quick' if (w, n) in ((13, 5), (7, 0)) else 'thorough', desc='IntVector %dx%d cut at every byte' % (w, n), shape={'width': w, 'len': n}, cap=600)
for (l, rk) in ((0, False), (65, False), (65, True), (20, True)):
    inst(P, 'c14_bitvector_l%d_%s' % (l, 'rank' if rk else 'plain'), 'c14::bitvector(%d, %s)' % (l, 'true' if rk else 'false'), unwind=U, tier='quick' if l == 65 else 'thorough',
         desc='BitVector %d bits (%s) cut at every byte' % (l, 'with rank support' if rk else 'no supports'), shape={'len': l, 'rank': rk}, cap=900, mem=8)
inst(P, 'c14_absent_option', 'c14::absent_option()', unwind=20, desc='absent_option == Option::None bytes; absent_option_size; skip_option over it')

extra(P, assumptions=['reader = &[u8] prefix of the serialization held in a 256-byte array; the cut point is one symbolic byte offset in 0..size',
                      'loaded Results are forgotten (mem::forget) after is_err() to keep io::Error drop glue out of the formula',
                      'String content restricted to ASCII (UTF-8 validation stubbed)'],
      coverage={'outside_bounds': ['structures larger than 256 bytes', 'sparse / run-length / wavelet-matrix truncation beyond the shapes listed']})
