from kvlib.registry import inst, extra
from kvlib import native
from kvlib.props.c02 import SPARSE, sparse_uw
from kvlib.props.c03 import rl_uw
from kvlib.props.c04 import uw as wm_uw, feasible_fw, bit_len

P = 'C10'
DRV = {r'c10::drive_': 8}


def merged(a, k):
    d = dict(a)
    d.update({r'c10::drive_(de|fwd|plain)': k + 2})
    return d


for (l, tier) in ((0, 'thorough'), (5, 'quick'), (64, 'deep'), (70, 'deep'), (130, 'deep')):
    for kind, kn in enumerate(('iter', 'one_iter', 'zero_iter')):
        for k in (2, 4, 6):
            inst(P, 'c10_bv_%s_l%d_k%d' % (kn, l, k), 'c10::bitvector(%d, %d, %d)' % (l, k, kind), tier=tier if (k == 4 and kn == 'iter') or (k == 2 and kn != 'iter') else ('thorough' if (l <= 5 and k == 4) or (kn == 'iter' and l <= 70 and k == 4) else 'deep'), unwind=26,
                 unwindset=merged({r'OneIter<.*> as std::iter::Iterator>::(next|nth)$': 5, r'OneIter<.*> as std::iter::DoubleEndedIterator>::next_back$': 5, r'c01::any_bits': 5, r'advance_back_by': l + 3, r'advance_by': l + 3}, k),
                 cap=900, cap_thorough=3600, mem=8 if l < 64 else 20, weight=l + 10 * k,
                 desc='BitVector::%s over %d symbolic bits: %d calls of symbolic kind next/next_back/nth(n)/nth_back(n), n over all usize; item, rank and len() checked at every step' % (kn, l, k),
                 shape={'len': l, 'calls': k, 'iterator': kn})
for (w, n, tier) in ((13, 5, 'quick'), (64, 3, 'thorough'), (1, 0, 'thorough')):
    for kind, kn in enumerate(('access_iter', 'into_iter')):
        inst(P, 'c10_int_%s_w%d_n%d' % (kn, w, n), 'c10::int_vector(%d, %d, 4, %d)' % (w, n, kind), tier=tier, unwind=12, unwindset=merged({}, 4), cap=600,
             desc='IntVector %s (%dx%d symbolic items): 4 calls of symbolic kind, nth arguments over all usize' % (kn, w, n), shape={'width': w, 'len': n, 'iterator': kn})


class SC:
    def __init__(self, n, m, multi, k, kind):
        self.a = (n, m, multi, k, kind)

    def __str__(self):
        n, m, multi, k, kind = self.a
        return 'c10::sparse(%d, %d, %d, %s, %d, %d)' % (n, m, native.sparse_width(n, m, multi), 'true' if multi else 'false', k, kind)


class LUW(dict):
    def __init__(self, n, m, multi, k):
        super().__init__()
        self._a, self._done = (n, m, multi, k), False

    def items(self):
        if not self._done:
            self._done = True
            n, m, multi, k = self._a
            d = merged(sparse_uw(n, m, None, multi), k)
            d.update({r'advance_by|advance_back_by|try_fold|try_rfold|::nth$|::nth_back$': max(n, m) + 4})
            self.update(d)
        return super().items()

    def __bool__(self):
        return True


for (n, m, multi, tier) in ((3, 1, False, 'deep'), (2, 2, True, 'deep'), (6, 2, False, 'deep'), (6, 3, True, 'deep'), (12, 3, False, 'deep'), (4, 6, True, 'deep'), (1 << 63, 2, False, 'deep')):
    for kind, kn in enumerate(('iter', 'one_iter', 'zero_iter')):
        if (kn == 'iter' and n > 64) or (kn == 'zero_iter' and (multi or n > 64)):
            continue
        inst(P, 'c10_sparse_%s_%s_n%d_m%d' % ('multi' if multi else 'set', kn, n, m), SC(n, m, multi, 2 if tier == 'quick' else 4, kind), tier=tier, unwind=26, stubs=SPARSE, cap=1200, cap_thorough=3600, mem=12 if tier == 'quick' else 28,
             weight=50 + m, desc='SparseVector (%s) %s, universe %d, %d symbolic positions: 2 (quick) / 4 calls of symbolic kind' % ('multiset' if multi else 'set', kn, n, m),
             shape={'universe': n, 'ones': m, 'multiset': multi, 'iterator': kn, 'calls': 2 if tier == 'quick' else 4}).unwindset = LUW(n, m, multi, 4)

RLS = {'one_small': ([(1, 1)], 1, False), 'two_small': ([(1, 1), (1, 2)], 1, True), 'one_at_any': ([(2, 3)], 1, True), 'empty': ([], 1, True)}
for name, (units, sw, trail) in RLS.items():
    for kind, kn in enumerate(('run_iter', 'one_iter', 'zero_iter', 'iter')):
        q = False   # RL iterator drivers: deep tier (symbolic nth() loops exceed 12 GB); plain sequences are in C03
        call = 'c10::rl(&[%s], %d, %s, %d, %d)' % (', '.join('(%d, %d)' % u for u in units), sw, 'true' if trail else 'false', 2 if q else 4, kind)
        inst(P, 'c10_rl_%s_%s' % (name, kn), call, tier='quick' if q else 'deep', unwind=10, unwindset=merged(dict(rl_uw(units), **{r'advance_by|advance_back_by|try_fold|try_rfold|::nth$': 8 * len(units) + 4}), 4),
             stubs=['simple_sds::rl_vector::index::SampleIndex::new => stubs::sample_index_new_contract'], cap=1200, cap_thorough=3600, mem=12 if q else 28, weight=60,
             desc='RLVector %s (%s, symbolic runs): 4 calls of symbolic kind next/nth(n)' % (kn, name), shape={'runs': units, 'iterator': kn})

for (n, maxv, tier) in ((3, 1, 'quick'), (4, 2, 'thorough')):
    width = bit_len(maxv)
    fw = sorted(feasible_fw(n, maxv))[0]
    for kind, kn in enumerate(('access_iter', 'into_iter', 'value_iter')):
        inst(P, 'c10_wm_%s_n%d_max%d' % (kn, n, maxv), 'c10::wm(%d, %d, %d, %d, %d)' % (n, maxv, fw, 2 if kn == 'value_iter' and tier == 'quick' else 4, kind), tier=tier, unwind=10, unwindset=merged(wm_uw(n, width), 4), stubs=['bvspec'],
             cap=1200, cap_thorough=3600, mem=10, weight=40, desc='WaveletMatrix %s (%d symbolic items <= %d): 4 calls of symbolic kind' % (kn, n, maxv), shape={'len': n, 'max_value': maxv, 'iterator': kn})

extra(P, assumptions=['bitvector iterators need no support structure; sparse / wavelet iterators run over specification stubs for the embedded bitvectors; RL vectors assembled from parts with the SampleIndex contract stub',
                      'select_iter / predecessor / successor starting points continuing with consecutive ranks: C01 (select_iter), C02/C03 (select_iter, select_zero_iter), C04 (select_iter)'],
      coverage={'outside_bounds': ['more than 6 calls', 'parents larger than the listed shapes', 'clone-then-continue', 'sparse and run-length one/zero/bit iterator DRIVERS run in the thorough tier only (symbolic execution of the default nth()/nth_back() loops needs > 12 GB even for 3-bit universes); their forward/backward sequences are checked in the quick tier by C02 (set_iters, set_bits), C15 (one_iter, multiset_bits) and C03 (run_iter, one_iter, zero_iter heads)']})
