from kvlib.registry import inst, extra, stubset

P = 'C18'

# std::fs as seen by MemoryMap::new -> harness/src/stubs_mmap.rs; mmap/munmap/close -> models/mmap_model.c
stubset('mmap_fs', [
    ('std::fs::OpenOptions::read', 'stubs_mmap::oo_read'),
    ('std::fs::OpenOptions::write', 'stubs_mmap::oo_write'),
    ('std::fs::OpenOptions::open', 'stubs_mmap::oo_open'),
    ('std::fs::File::metadata', 'stubs_mmap::file_metadata'),
    ('std::fs::Metadata::len', 'stubs_mmap::metadata_len'),
])
MODEL = ['mmap_model.c']


def capw(size):
    return size // 8


# concrete size classes: empty, one word, two words, sub-page, page-1 word, exact page, page+1 word,
# two pages, three pages + one word; and sizes that are not multiples of 8
SIZES = [(0, 'quick'), (8, 'quick'), (16, 'quick'), (4088, 'quick'), (4096, 'quick'), (4104, 'quick'), (8192, 'quick'), (12296, 'quick'),
         (1, 'quick'), (4100, 'quick'), (12295, 'quick'), (2048, 'quick'),
         (12288, 'thorough'), (24, 'thorough'), (4080, 'thorough'), (8184, 'thorough'), (8200, 'thorough'), (12280, 'thorough'), (4095, 'thorough')]
for size, tier in SIZES:
    w = capw(size)
    inst(P, 'c18_life_s%d' % size, 'c18::lifecycle(%d, 2)' % size, tier=tier, unwind=10, stubs=['mmap_fs'], models=MODEL,
         cap=600, mem=8, weight=1 + w // 256,
         desc='file of %d bytes: 2 map/drop cycles, both modes, missing file, OS refusal, symbolic content word, read and write at symbolic indices' % size,
         shape={'size': size, 'cycles': 2})

# every size in a range, symbolic (not only multiples of 8)
inst(P, 'c18_life_sym_4080_4112', 'c18::lifecycle_sym(4080, 4112, 2, true)', tier='thorough', unwind=10, stubs=['mmap_fs'], models=MODEL, cap=900, cap_thorough=1800, mem=8, weight=3,
     desc='every file size 4080..=4112 bytes (symbolic, around the page boundary) with content: 2 map/drop cycles', shape={'size': '4080..=4112', 'cycles': 2})
inst(P, 'c18_life_sym_0_72', 'c18::lifecycle_sym(0, 72, 2, true)', unwind=10, stubs=['mmap_fs'], models=MODEL, cap=600, mem=8, weight=2,
     desc='every file size 0..=72 bytes (symbolic): 2 map/drop cycles, both modes, missing file, OS refusal', shape={'size': '0..=72', 'cycles': 2})
inst(P, 'c18_life_sym_pages', 'c18::lifecycle_sym(0, 12296, 1, false)', unwind=10, stubs=['mmap_fs'], models=MODEL, cap=900, mem=12, weight=9,
     desc='every file size 0..=3 pages+8 bytes (symbolic): map/drop, both modes, missing file, OS refusal (sizes, lengths, OS requests, page and descriptor accounting; no content reads)', shape={'size': '0..=12296', 'cycles': 1})
inst(P, 'c18_life_sym_pages_c2', 'c18::lifecycle_sym(0, 12296, 2, false)', tier='quick', unwind=10, stubs=['mmap_fs'], models=MODEL, cap=900, cap_thorough=3600, mem=16, weight=9,
     desc='every file size 0..=3 pages+8 bytes (symbolic): 2 map/drop cycles (no content reads)', shape={'size': '0..=12296', 'cycles': 2})

extra(P, assumptions=[
    'OS model (models/mmap_model.c, follows mmap(2)/munmap(2)): mmap with length 0 or refused by the OS returns MAP_FAILED (never NULL); success returns the page-aligned pages of the file itself (MAP_SHARED: the mapping is the file, bytes past the end of the file in the last page read as zero) and maps ceil(len/4096) pages; munmap(p, n) with n == 0 or unaligned p fails and releases nothing, otherwise releases ceil(n/4096) pages from p; close(fd) closes the descriptor; page size 4096',
    'std::fs stubs (harness/src/stubs_mmap.rs): OpenOptions::read/write record the flag; OpenOptions::open fails iff the harness chose "file cannot be opened in this mode" (covers missing file and no write permission), otherwise returns a File owning descriptor 3; File::metadata always succeeds on an open file; Metadata::len returns the model file length',
    'file content = zero except the first word, the last word and one word at a position picked from {first, last, middle, third, word 511, word 512}, which are arbitrary; reads at a fully symbolic index, the store through as_mut_slice() at a picked position with an arbitrary value',
    'native replay runs the same template on a real temp file with the real mmap and observes /proc/self/maps, /proc/self/fd and the file bytes; "the OS refuses the mapping" is reproduced natively by lowering RLIMIT_AS to the current address-space size around MemoryMap::new (mmap fails with ENOMEM)',
    'Linux x86_64 values PROT_READ=1, PROT_WRITE=2, MAP_SHARED=1',
], coverage={'outside_bounds': [
    'files larger than 3 pages + 8 bytes', 'more than 2 map/drop cycles (the model state after a complete cycle equals the initial state, see check_released)',
    'page sizes other than 4096', 'kernel conformance to mmap(2)', 'msync/crash durability of MAP_SHARED stores', 'fstat failing on an open file',
    'concurrent modification or truncation of the file while mapped']})
