from kvlib.registry import inst, extra

P = 'C17'
inst(P, 'c17_rw_int', 'c17::rw_int()', unwind=2, desc='write_int/read_int: 3-word symbolic background, offset 0..=192-w, width 1..=64, value all u64',
     shape={'words': 3})
inst(P, 'c17_select_word', 'c17::select_word()', unwind=66, cap=600, desc='bits::select (portable path as compiled by kani): all (word, rank<popcount) vs 64-step scan', weight=5)
inst(P, 'c17_masks', 'c17::masks()', desc='low_set/high_set(+_unchecked), all n in 0..=64')
inst(P, 'c17_bit_len', 'c17::bit_len()', desc='bit_len, all u64')
inst(P, 'c17_reverse_low', 'c17::reverse_low()', desc='reverse_low all (n, bits 1..=64), symbolic bit index')
inst(P, 'c17_rounding', 'c17::rounding()', desc='bytes/bits<->words, round_up_*, split_offset/bit_offset, all usize in the documented domain')
for n in (1, 2, 3, 4, 64, 512, 4096, 1 << 32, (1 << 63) + 1, (1 << 64) - 1):
    inst(P, 'c17_div_round_up_n%d' % n, 'c17::div_round_up_const::<%d>()' % n, tier='quick' if n in (1, 3, 4, 64, 512, 4096, (1 << 64) - 1) else 'thorough',
         desc='div_round_up(value, %d): all value with value+n representable' % n, shape={'n': n})
inst(P, 'c17_div_round_up_small8', 'c17::div_round_up_small::<8>()', desc='div_round_up: value, n both symbolic below 2^8', shape={'bits': 8})
inst(P, 'c17_div_round_up_small16', 'c17::div_round_up_small::<16>()', tier='thorough', cap_thorough=1800, desc='div_round_up: value, n both symbolic below 2^16', shape={'bits': 16})

extra(P, assumptions=[
    'x86_64 little-endian, usize = 64 bits',
    'rounding helpers: argument + rounding term <= usize::MAX (documented "may panic" beyond)',
], coverage={'outside_bounds': ['arrays longer than 3 words for read/write (index arithmetic is offset>>6, covered for all offsets < 192)', 'non-x86_64 targets', 'div_round_up with symbolic divisor beyond 16 bits (symbolic-by-symbolic 64-bit division did not finish in 600 s); the divisors the crate itself uses (4, 64, 512, 4096) are checked at full width']})
