import itertools
from kvlib.registry import inst, extra

P = 'C04'
WMSTUBS = ['bvspec']


def bit_len(x):
    return max(1, x.bit_length())


def feasible_fw(n, maxv):
    """first[] widths that occur for some item vector of length n over 0..=maxv containing maxv."""
    width = bit_len(maxv)
    res = set()
    if n == 0:
        return {1}
    for items in itertools.product(range(maxv + 1), repeat=n):
        if maxv not in items:
            continue
        rev = lambda x: int(format(x, '0%db' % width)[::-1], 2)
        order = sorted(range(n), key=lambda i: rev(items[i]))
        re = [items[i] for i in order]
        first = [re.index(v) if v in re else n for v in range(maxv + 1)]
        res.add(bit_len(max(first)))
    return res


WMQ = ['access', 'rank', 'select', 'value_iter', 'pred', 'succ']
COREQ = ['map_down', 'map_down_with', 'map_up_with']
UW = {r'BitVector as simple_sds::ops::(Select|SelectZero|Rank)<.*>>::(select|select_zero|rank)$': 74}


def doc_uw(n=8, width=4, sigma=16, count=16):
    """Per-loop bounds of the document codec (harness/src/doc.rs)."""
    return {r'doc::Doc::bytes$#1': 66, r'doc::Doc::bytes$#0': 10, r'doc::Doc::from_bytes$#1': 66, r'doc::Doc::from_bytes$#0': 10,
            r'doc::Reader<.*> as std::io::Read>::read$': 8 * 10 + 2, r'std::io::default_read_exact': 4, r'doc::Doc::raw$': 10, r'doc::Doc::int_vector$': count + 2, r'doc::Doc::bitvector$': 6, r'doc::bit_len$': 66,
            r'doc::enc_wmcore$#3': width + 2, r'doc::enc_wmcore$#0': n + 2, r'doc::enc_wmcore$#1': n + 2, r'doc::enc_wmcore$#2': n + 2,
            r'doc::first_of$#1': sigma + 2, r'doc::first_of$#0': n + 2}


def uw(n, width):
    d = {r'BitVector as simple_sds::ops::(Select|SelectZero|Rank)<.*>>::(select|select_zero|rank)$': n + 2}
    d.update(doc_uw(n, width, (1 << width), (1 << width)))
    d.update({r'WMCore::(map_down|map_down_with|map_down_with_two_positions|map_up_with)$': width + 2,
              r'WMCore::init_support$': width + 2, r'WMCore as simple_sds::serialize::Serialize>::load': width + 2,
              r'drop_glue::<\[simple_sds::bit_vector::BitVector\]>': width + 2,
              r'stubs_bv::(enable|enabled)$': 26, r'stubs_bv::words_of$': 4, r'c04::levels_of$#3': width + 2, r'c04::levels_of$': n + 2, r'c04::load_wm$': (1 << width) + 2,
              r'IntVector::with_len$': (1 << width) + 2, r'Vec::<u64>::extend_with$': 4, r'RawVector::count_ones$': 4, r'c04::': max(10, (1 << width) + 2)})
    return d


for (n, maxv, tier) in ((0, 0, 'thorough'), (1, 0, 'quick'), (3, 1, 'quick'), (4, 2, 'quick'), (4, 3, 'thorough'), (5, 5, 'thorough'), (5, 7, 'thorough'), (6, 12, 'thorough')):
    width = bit_len(maxv)
    for fw in sorted(feasible_fw(n, maxv)):
        for q, qn in enumerate(WMQ):
            inst(P, 'c04_wm_%s_n%d_max%d_fw%d' % (qn, n, maxv, fw), 'c04::wm_queries(%d, %d, %d, %d)' % (n, maxv, fw, q), tier=tier, unwind=10,
                 unwindset=uw(n, width), stubs=WMSTUBS, cap=900, cap_thorough=3600, mem=6, weight=n * width,
                 role='wavelet matrix %s' % qn,
                 desc='WaveletMatrix %s: %d symbolic items in 0..=%d (width %d, max present, first[] width %d), assembled from document-defined parts; (index, rank, value) over all usize/u64' % (qn, n, maxv, width, fw),
                 shape={'len': n, 'max_value': maxv, 'width': width, 'first_width': fw, 'query': qn})
    for q, qn in enumerate(COREQ):
        inst(P, 'c04_core_%s_n%d_max%d' % (qn, n, maxv), 'c04::core_queries(%d, %d, %d)' % (n, maxv, q), tier=tier, unwind=10,
             unwindset=uw(n, width), stubs=WMSTUBS, cap=900, cap_thorough=3600, mem=6, weight=n * width, role='wavelet core %s' % qn,
             desc='WMCore %s: %d symbolic items in 0..=%d (width %d), assembled from document-defined parts; all arguments' % (qn, n, maxv, width),
             shape={'len': n, 'max_value': maxv, 'width': width, 'query': qn})

extra(P, assumptions=[
    'R8: the matrix is assembled from its serialized parts (level bitvectors per the format document, first[] packed to its minimal width) through the cfg(simple_sds_verif) hooks WMCore::verif_from_levels / WaveletMatrix::verif_from_parts — exactly the state load() produces from a conforming file; WaveletMatrix::from(Vec<T>) / WMCore::from(Vec<T>) themselves are NOT executed (CBMC does not finish on them: alphabet size and level count are data) — construction is outside the claim',
    'R3: embedded BitVectors answer rank/select/select_zero through specification stubs; a query whose support was never enabled fails',
    'each instance fixes len, the largest value (present) and the minimal width of first[]; all other content is symbolic',
], coverage={'outside_bounds': ['WaveletMatrix::from / WMCore::from for all five item types (construction)', 'widths above 4, lengths above 6']})
