//! Symbolic input source. Under Kani every call is `kani::any()`; natively the
//! values are replayed, in call order, from a counterexample file.

#[cfg(kani)]
mod imp {
    // Every drawn value gets a tautological assumption that the simplifier does not remove:
    // assumptions stay in the cone of influence of every property, so `--slice-formula` keeps the
    // value in counterexample traces and native replay receives ALL inputs in call order.
    #[inline(always)] pub fn u64() -> u64 { let v: u64 = kani::any(); kani::assume((v | 1) != 0); v }
    #[inline(always)] pub fn usize() -> usize { let v: usize = kani::any(); kani::assume((v | 1) != 0); v }
    #[inline(always)] pub fn u32() -> u32 { let v: u32 = kani::any(); kani::assume((v | 1) != 0); v }
    #[inline(always)] pub fn u16() -> u16 { let v: u16 = kani::any(); kani::assume((v | 1) != 0); v }
    #[inline(always)] pub fn u8() -> u8 { let v: u8 = kani::any(); kani::assume((v | 1) != 0); v }
    #[inline(always)] pub fn bool() -> bool { let v: u8 = kani::any(); kani::assume(v <= 1 && (v | 2) != 0); v == 1 }
    #[inline(always)] pub fn assume(c: bool) { kani::assume(c) }
    #[inline(always)] pub fn cover(c: bool) { kani::cover!(c) }
}

#[cfg(not(kani))]
mod imp {
    use std::cell::RefCell;
    use std::collections::VecDeque;
    thread_local! {
        pub static QUEUE: RefCell<VecDeque<u64>> = RefCell::new(VecDeque::new());
    }
    fn pop() -> u64 {
        QUEUE.with(|q| q.borrow_mut().pop_front()).unwrap_or_else(|| {
            eprintln!("REPLAY-EXHAUSTED");
            std::process::exit(3)
        })
    }
    pub fn u64() -> u64 { pop() }
    pub fn usize() -> usize { pop() as usize }
    pub fn u32() -> u32 { pop() as u32 }
    pub fn u16() -> u16 { pop() as u16 }
    pub fn u8() -> u8 { pop() as u8 }
    pub fn bool() -> bool { pop() != 0 }
    pub fn assume(c: bool) {
        if !c {
            eprintln!("REPLAY-ASSUME-FAILED");
            std::process::exit(3)
        }
    }
    pub fn cover(_c: bool) {}
}

pub use imp::*;

#[cfg(not(kani))]
pub fn load(values: &[u64]) {
    imp::QUEUE.with(|q| { let mut q = q.borrow_mut(); q.clear(); q.extend(values.iter().copied()); });
}

/// Symbolic value in `lo..=hi`.
pub fn usize_in(lo: usize, hi: usize) -> usize {
    let x = usize();
    assume(x >= lo && x <= hi);
    x
}

pub fn u64_below_width(width: usize) -> u64 {
    let x = u64();
    if width < 64 { assume(x >> width == 0); }
    x
}
