//! C11 — conversions between the three bitvector types preserve the bits and are canonical:
//! the converted structure equals (==) the one the target's own builder produces from the same bits.
use crate::sym;
use crate::c02::{Ref, any_positions, build as build_sparse};
use simple_sds::bit_vector::BitVector;
use simple_sds::sparse_vector::SparseVector;
use simple_sds::rl_vector::{RLVector, RLBuilder};
use simple_sds::raw_vector::{RawVector, AccessRaw};
use simple_sds::ops::{BitVec, Select};

#[cfg(kani)]
fn fix_ones(m: usize) { crate::stubs::set_fixed_ones(m); }
#[cfg(not(kani))]
fn fix_ones(_m: usize) {}

fn build_bv(r: &Ref) -> BitVector {
    let mut raw = RawVector::with_len(r.n, false);
    let mut k = 0;
    while k < r.m { raw.set_bit(r.p[k], true); k += 1; }
    BitVector::from(raw)
}

/// RL vector by maximal runs (adjacent positions merged by the caller) or bit by bit.
fn build_rl(r: &Ref, by_runs: bool) -> RLVector {
    let mut b = RLBuilder::new();
    if by_runs {
        let mut k = 0;
        while k < r.m {
            let start = r.p[k]; let mut len = 1;
            while k + len < r.m && r.p[k + len] == start + len { len += 1; }
            b.try_set(start, len).unwrap();
            k += len;
        }
    } else {
        let mut k = 0;
        while k < r.m { b.try_set(r.p[k], 1).unwrap(); k += 1; }
    }
    b.set_len(r.n);
    RLVector::from(b)
}

fn same_bits<'a, T: BitVec<'a> + Select<'a>>(v: &'a T, r: &Ref) {
    assert!(v.len() == r.n && v.count_ones() == r.m);
    let mut it = v.one_iter();
    let mut k = 0;
    while k < 8 { if k < r.m { assert!(it.next() == Some((k, r.p[k]))); } k += 1; }
    assert!(it.next().is_none());
}

/// kind 0: BitVector -> SparseVector; 1: SparseVector -> BitVector; 2: BitVector -> Sparse -> BitVector;
/// 3: Sparse -> BitVector -> Sparse.
pub fn bv_sparse(l: usize, m: usize, w: usize, kind: u8) {
    let r = any_positions(l, m, false);
    fix_ones(m);
    match kind {
        0 => { let c = SparseVector::from(build_bv(&r)); same_bits(&c, &r); assert!(c == build_sparse(&r, w, false)); }
        1 => { let c = BitVector::from(build_sparse(&r, w, false)); same_bits(&c, &r); assert!(c == build_bv(&r)); }
        2 => { let c = BitVector::from(SparseVector::from(build_bv(&r))); assert!(c == build_bv(&r)); }
        _ => { let c = SparseVector::from(BitVector::from(build_sparse(&r, w, false))); assert!(c == build_sparse(&r, w, false)); }
    }
}

/// kind 0: the RL builder fed bit by bit == fed by maximal runs; 1: BitVector -> RLVector == direct;
/// 2: RLVector -> BitVector == direct; 3: SparseVector -> RLVector == direct; 4: RLVector -> SparseVector == direct.
pub fn rl_conv(l: usize, m: usize, w: usize, kind: u8) {
    let r = any_positions(l, m, false);
    fix_ones(m);
    match kind {
        0 => { let a = build_rl(&r, true); let b = build_rl(&r, false); same_bits(&a, &r); assert!(a == b); }
        1 => { let c = RLVector::from(build_bv(&r)); same_bits(&c, &r); assert!(c == build_rl(&r, true)); }
        2 => { let c = BitVector::from(build_rl(&r, true)); same_bits(&c, &r); assert!(c == build_bv(&r)); }
        3 => { let c = RLVector::from(build_sparse(&r, w, false)); same_bits(&c, &r); assert!(c == build_rl(&r, true)); }
        _ => { let c = SparseVector::from(build_rl(&r, true)); same_bits(&c, &r); assert!(c == build_sparse(&r, w, false)); }
    }
}
