//! R3: specification stubs for the plain bitvector. Structures that EMBED bitvectors
//! (SparseVector, WMCore, WaveletMatrix) are verified against this specification of
//! rank/select/select_zero (linear scans over the real bits); the plain bitvector itself is
//! verified against the same specification with its real support structures in C01/C19.
//! enable_* become no-ops (the scans need no support structure).
#![cfg(kani)]
use simple_sds::bit_vector::BitVector;
use simple_sds::ops::BitVec;

/// Upper bound on the length of an embedded bitvector in the instances that use these stubs.
pub const BV_SCAN: usize = 72;

pub const BV_WORDS: usize = (BV_SCAN + 63) / 64;

/// The bits of the embedded vector as local words (one pass over the real buffer).
#[inline(always)]
fn words_of(bv: &BitVector) -> (usize, [u64; BV_WORDS]) {
    let n = bv.len();
    assert!(n <= BV_SCAN, "stub: embedded bitvector longer than the scan bound");
    let raw: &simple_sds::raw_vector::RawVector = bv.as_ref();
    let data: &[u64] = raw.as_ref();
    let mut w = [0u64; BV_WORDS];
    let mut k = 0;
    while k < BV_WORDS { if k < data.len() { w[k] = data[k]; } k += 1; }
    (n, w)
}

pub fn bv_rank<'a>(bv: &BitVector, index: usize) -> usize where 'a: 'a {
    let (n, w) = words_of(bv);
    if index < n { assert!(enabled(bv, 1), "rank support was never enabled on this bitvector"); }
    let mut i = 0; let mut r = 0usize;
    while i < BV_SCAN { if i < n && i < index && (w[i >> 6] >> (i & 63)) & 1 == 1 { r += 1; } i += 1; }
    r
}

pub fn bv_select<'a>(bv: &'a BitVector, rank: usize) -> Option<usize> where 'a: 'a {
    let (n, w) = words_of(bv);
    if rank < bv.count_ones() { assert!(enabled(bv, 2), "select support was never enabled on this bitvector"); }
    let mut i = 0; let mut seen = 0usize; let mut res: Option<usize> = None;
    while i < BV_SCAN {
        if i < n && (w[i >> 6] >> (i & 63)) & 1 == 1 {
            if seen == rank && res.is_none() { res = Some(i); }
            seen += 1;
        }
        i += 1;
    }
    res
}

pub fn bv_select_zero<'a>(bv: &'a BitVector, rank: usize) -> Option<usize> where 'a: 'a {
    let (n, w) = words_of(bv);
    if rank < n - bv.count_ones() { assert!(enabled(bv, 4), "select_zero support was never enabled on this bitvector"); }
    let mut i = 0; let mut seen = 0usize; let mut res: Option<usize> = None;
    while i < BV_SCAN {
        if i < n && (w[i >> 6] >> (i & 63)) & 1 == 0 {
            if seen == rank && res.is_none() { res = Some(i); }
            seen += 1;
        }
        i += 1;
    }
    res
}

// Which supports were "enabled": keyed by the address of the bit buffer (stable across moves
// of the BitVector value). A query that the real code answers through a support structure
// asserts that the support was enabled (the real code would panic on `unwrap()` of `None`).
const SLOTS: usize = 24;
static mut KEYS: [usize; SLOTS] = [0; SLOTS];
static mut MASKS: [u8; SLOTS] = [0; SLOTS];
static mut USED: usize = 0;

fn key_of(bv: &BitVector) -> usize {
    let raw: &simple_sds::raw_vector::RawVector = bv.as_ref();
    let data: &[u64] = raw.as_ref();
    data.as_ptr() as usize
}
fn enable(bv: &BitVector, bit: u8) {
    let k = key_of(bv);
    unsafe {
        let mut i = 0;
        while i < SLOTS { if i < USED && KEYS[i] == k { MASKS[i] |= bit; return; } i += 1; }
        assert!(USED < SLOTS, "stub: too many embedded bitvectors");
        KEYS[USED] = k; MASKS[USED] = bit; USED += 1;
    }
}
fn enabled(bv: &BitVector, bit: u8) -> bool {
    let k = key_of(bv);
    unsafe {
        let mut i = 0;
        while i < SLOTS { if i < USED && KEYS[i] == k && MASKS[i] & bit != 0 { return true; } i += 1; }
    }
    false
}
pub fn bv_enable_rank<'a>(bv: &mut BitVector) where 'a: 'a { enable(bv, 1) }
pub fn bv_enable_select<'a>(bv: &mut BitVector) where 'a: 'a { enable(bv, 2) }
pub fn bv_enable_select_zero<'a>(bv: &mut BitVector) where 'a: 'a { enable(bv, 4) }
pub fn bv_enable_pred_succ<'a>(bv: &mut BitVector) where 'a: 'a { enable(bv, 3) }
