//! R3: specification stubs for the plain bitvector. Structures that EMBED bitvectors
//! (SparseVector, WMCore, WaveletMatrix) are verified against this specification of
//! rank/select/select_zero (linear scans over the real bits); the plain bitvector itself is
//! verified against the same specification with its real support structures in C01/C19.
//! enable_* become no-ops (the scans need no support structure).
#![cfg(kani)]
use simple_sds::bit_vector::BitVector;
use simple_sds::ops::BitVec;

/// Upper bound on the length of an embedded bitvector in the instances that use these stubs.
pub const BV_SCAN: usize = 72;

pub const BV_WORDS: usize = (BV_SCAN + 63) / 64;

/// Concrete scan length for the current instance (<= BV_SCAN); harnesses set it to the longest
/// embedded bitvector they build so that the scans are not longer than necessary.
// stored with a unique offset so that the initial bytes coincide with no other constant (see NOTE below)
const SCAN_TAG: usize = 0x5CA9_0000;
static mut SCAN: usize = SCAN_TAG + BV_SCAN;
pub fn set_scan(n: usize) { assert!(n <= BV_SCAN); unsafe { SCAN = SCAN_TAG + n; } }
fn scan() -> usize { unsafe { SCAN - SCAN_TAG } }

/// The bits of the embedded vector as local words (one pass over the real buffer).
#[inline(always)]
fn words_of(bv: &BitVector) -> (usize, [u64; BV_WORDS]) {
    let n = bv.len();
    assert!(n <= scan(), "stub: embedded bitvector longer than the scan bound");
    let raw: &simple_sds::raw_vector::RawVector = bv.as_ref();
    let data: &[u64] = raw.as_ref();
    let mut w = [0u64; BV_WORDS];
    let mut k = 0;
    while k < BV_WORDS { if k < data.len() { w[k] = data[k]; } k += 1; }
    (n, w)
}

pub fn bv_rank<'a>(bv: &BitVector, index: usize) -> usize where 'a: 'a {
    let (n, w) = words_of(bv);
    if index < n { assert!(enabled(bv, 1), "rank support was never enabled on this bitvector"); }
    let mut i = 0; let mut r = 0usize;
    while i < scan() { if i < n && i < index && (w[i >> 6] >> (i & 63)) & 1 == 1 { r += 1; } i += 1; }
    r
}

pub fn bv_select<'a>(bv: &'a BitVector, rank: usize) -> Option<usize> where 'a: 'a {
    let (n, w) = words_of(bv);
    if rank < bv.count_ones() { assert!(enabled(bv, 2), "select support was never enabled on this bitvector"); }
    let mut i = 0; let mut seen = 0usize; let mut res: Option<usize> = None;
    while i < scan() {
        if i < n && (w[i >> 6] >> (i & 63)) & 1 == 1 {
            if seen == rank && res.is_none() { res = Some(i); }
            seen += 1;
        }
        i += 1;
    }
    res
}

pub fn bv_select_zero<'a>(bv: &'a BitVector, rank: usize) -> Option<usize> where 'a: 'a {
    let (n, w) = words_of(bv);
    if rank < n - bv.count_ones() { assert!(enabled(bv, 4), "select_zero support was never enabled on this bitvector"); }
    let mut i = 0; let mut seen = 0usize; let mut res: Option<usize> = None;
    while i < scan() {
        if i < n && (w[i >> 6] >> (i & 63)) & 1 == 0 {
            if seen == rank && res.is_none() { res = Some(i); }
            seen += 1;
        }
        i += 1;
    }
    res
}

// Which supports were "enabled": keyed by the address of the bit buffer (stable across moves
// of the BitVector value). A query that the real code answers through a support structure
// asserts that the support was enabled (the real code would panic on `unwrap()` of `None`).
const SLOTS: usize = 24;
// NOTE: kani-compiler 0.68 may alias a zero-initialised `static mut` with rustc's interned all-zero
// constant of the same size (then e.g. RawVec's ZERO_CAP changes when the static is written). All
// mutable statics in the harness crate are therefore initialised with NON-ZERO bytes.
static mut KEYS: [*const u64; SLOTS] = [std::ptr::NonNull::<u64>::dangling().as_ptr() as *const u64; SLOTS];
static mut MASKS: [u8; SLOTS] = [0xB0; SLOTS];
const USED_TAG: usize = 0x05ED_0000;
static mut USED_T: usize = USED_TAG;

fn key_of(bv: &BitVector) -> *const u64 {
    let raw: &simple_sds::raw_vector::RawVector = bv.as_ref();
    let data: &[u64] = raw.as_ref();
    data.as_ptr()
}
fn enable(bv: &BitVector, bit: u8) {
    let k = key_of(bv);
    unsafe {
        let used = USED_T - USED_TAG;
        let mut i = 0;
        while i < SLOTS { if i < used && KEYS[i] == k { MASKS[i] |= bit; return; } i += 1; }
        assert!(used < SLOTS, "stub: too many embedded bitvectors");
        KEYS[used] = k; MASKS[used] = 0xB0 | bit; USED_T += 1;
    }
}
fn enabled(bv: &BitVector, bit: u8) -> bool {
    let k = key_of(bv);
    unsafe {
        let used = USED_T - USED_TAG;
        let mut i = 0;
        while i < SLOTS { if i < used && KEYS[i] == k && MASKS[i] & bit != 0 { return true; } i += 1; }
    }
    false
}
pub fn bv_enable_rank<'a>(bv: &mut BitVector) where 'a: 'a { enable(bv, 1) }
pub fn bv_enable_select<'a>(bv: &mut BitVector) where 'a: 'a { enable(bv, 2) }
pub fn bv_enable_select_zero<'a>(bv: &mut BitVector) where 'a: 'a { enable(bv, 4) }
pub fn bv_enable_pred_succ<'a>(bv: &mut BitVector) where 'a: 'a { enable(bv, 3) }
