//! C04 — wavelet matrix and core. The matrix under test is obtained with `Serialize::load`
//! from bytes produced by the document encoder (doc.rs) applied to symbolic items (R8);
//! embedded bitvectors answer through the specification stubs (R3, with enable-tracking).
use crate::sym;
use crate::doc::{self, Doc, DCAP};
use simple_sds::wavelet_matrix::WaveletMatrix;
use simple_sds::wavelet_matrix::wm_core::WMCore;
use simple_sds::serialize::Serialize;
use simple_sds::ops::{Vector, Access, VectorIndex};
use simple_sds::bit_vector::BitVector;
use simple_sds::int_vector::IntVector;
use simple_sds::raw_vector::{RawVector, AccessRaw};

#[cfg(kani)]
fn set_scan(n: usize) { crate::stubs_bv::set_scan(n); }
#[cfg(not(kani))]
fn set_scan(_n: usize) {}

pub struct Items { pub n: usize, pub width: usize, pub sigma: usize, pub v: [u64; 8], pub re: [u64; 8] }

/// n symbolic items in 0..=maxv with maxv present.
fn any_items(n: usize, maxv: u64) -> [u64; 8] {
    let mut v = [0u64; 8];
    let mut has_max = false;
    let mut i = 0;
    while i < n { v[i] = sym::u64(); sym::assume(v[i] <= maxv); if v[i] == maxv { has_max = true; } i += 1; }
    sym::assume(has_max || n == 0);
    v
}

/// Level bitvectors of the items per the format document (doc::enc_wmcore logic): level l holds
/// bit (width-1-l) of the items in the order produced by the stable partitions of earlier levels.
fn levels_of(v: &[u64; 8], n: usize, width: usize) -> (Vec<BitVector>, [u64; 8]) {
    let mut cur = *v;
    let mut levels: Vec<BitVector> = Vec::with_capacity(width);
    let mut level = 0;
    while level < width {
        let bitv = 1u64 << (width - 1 - level);
        let mut bits = 0u64;
        let mut next = [0u64; 8];
        let mut z = 0; let mut i = 0;
        while i < n { if cur[i] & bitv == 0 { next[z] = cur[i]; z += 1; } else { bits |= 1u64 << i; } i += 1; }
        let mut i = 0;
        while i < n { if cur[i] & bitv != 0 { next[z] = cur[i]; z += 1; } i += 1; }
        let mut raw = RawVector::with_len(n, false);
        if n > 0 { unsafe { raw.set_int(0, bits, n); } }
        levels.push(BitVector::from(raw));
        cur = next;
        level += 1;
    }
    (levels, cur)
}

/// A WaveletMatrix for symbolic items, assembled from its serialized parts through the
/// cfg(simple_sds_verif) hooks (exactly the state `load` produces from a conforming file);
/// `fw` is the (concrete) minimal width of first[] that this instance covers.
pub fn load_wm(n: usize, maxv: u64, fw: usize) -> (WaveletMatrix, Items) {
    set_scan(n);
    let v = any_items(n, maxv);
    let width = doc::bit_len(maxv);
    let sigma = (maxv + 1) as usize;
    let (levels, re) = levels_of(&v, n, width);
    let f = doc::first_of(&re, n, sigma);
    let mut mx = 0u64; let mut k = 0;
    while k < sigma { if f[k] > mx { mx = f[k]; } k += 1; }
    sym::assume(doc::bit_len(mx) == fw);
    let core = WMCore::verif_from_levels(levels);
    let mut first = IntVector::with_len(sigma, fw, 0).unwrap();
    let mut k = 0;
    while k < sigma { first.set(k, f[k]); k += 1; }
    let wm = WaveletMatrix::verif_from_parts(n, core, first);
    (wm, Items { n, width, sigma, v, re })
}

pub fn load_core(n: usize, maxv: u64) -> (WMCore, Items) {
    set_scan(n);
    let v = any_items(n, maxv);
    let width = doc::bit_len(maxv);
    let (levels, re) = levels_of(&v, n, width);
    let core = WMCore::verif_from_levels(levels);
    (core, Items { n, width, sigma: (maxv + 1) as usize, v, re })
}

impl Items {
    /// occurrences of x in v[0..min(i, n)]
    pub fn rank(&self, i: usize, x: u64) -> usize { let mut k = 0; let mut r = 0; while k < 8 { if k < self.n && k < i && self.v[k] == x { r += 1; } k += 1; } r }
    pub fn count(&self, x: u64) -> usize { self.rank(self.n, x) }
    /// index of the r-th occurrence of x
    pub fn is_select(&self, r: usize, x: u64, p: usize) -> bool { p < self.n && self.v[p] == x && self.rank(p, x) == r }
    fn rev(&self, x: u64) -> u64 { let mut r = 0u64; let mut b = 0; while b < 8 { if b < self.width && (x >> b) & 1 == 1 { r |= 1u64 << (self.width - 1 - b); } b += 1; } r }
    /// position of v[i] in the stable sort by reversed bits
    pub fn sorted_pos(&self, i: usize) -> usize {
        let key = self.rev(self.v[i]);
        let mut k = 0; let mut p = 0;
        while k < 8 { if k < self.n { let kk = self.rev(self.v[k]); if kk < key || (kk == key && k < i) { p += 1; } } k += 1; }
        p
    }
    /// start of value x in the reordered vector = number of items whose reversed key is smaller
    pub fn start(&self, x: u64) -> usize {
        let key = self.rev(x);
        let mut k = 0; let mut p = 0;
        while k < 8 { if k < self.n && self.rev(self.v[k]) < key { p += 1; } k += 1; }
        p
    }
}

/// Query groups on the plain wavelet matrix; all (index, rank, value) over all usize / u64.
pub fn wm_queries(n: usize, maxv: u64, fw: usize, q: u8) {
    let (wm, it) = load_wm(n, maxv, fw);
    let i = sym::usize();
    let x = sym::u64();
    match q {
        0 => {
            assert!(wm.len() == n && wm.width() == it.width && wm.is_empty() == (n == 0));
            if i < n { assert!(wm.get(i) == it.v[i]); }
            match wm.inverse_select(i) {
                None => assert!(i >= n),
                Some((r, val)) => assert!(i < n && val == it.v[i] && r == it.rank(i, val)),
            }
            assert!(wm.get_or(i, x) == if i < n { it.v[i] } else { x });
        }
        1 => {
            assert!(wm.rank(i, x) == it.rank(i, x));
            assert!(wm.contains(x) == (it.count(x) > 0));
        }
        2 => match wm.select(i, x) {
            None => assert!(i >= it.count(x)),
            Some(p) => assert!(i < it.count(x) && it.is_select(i, x, p)),
        },
        3 => {
            // value_iter / select_iter: consecutive ranks to the end, then None forever
            let mut vi = wm.select_iter(i, x);
            assert!(WaveletMatrix::value_of(&vi) == x);
            match vi.next() {
                None => assert!(i >= it.count(x)),
                Some((r, p)) => {
                    assert!(r == i && it.is_select(i, x, p));
                    match vi.next() { None => assert!(i + 1 == it.count(x)), Some((r2, p2)) => assert!(r2 == i + 1 && it.is_select(r2, x, p2)) }
                }
            }
            let mut all = wm.value_iter(x);
            match all.next() { None => assert!(it.count(x) == 0), Some((r, p)) => assert!(r == 0 && it.is_select(0, x, p)) }
        }
        4 => {
            // predecessor: last occurrence of x at or before i
            match wm.predecessor(i, x).next() {
                None => assert!(it.rank(if i < n { i + 1 } else { n }, x) == 0),
                Some((r, p)) => assert!(p <= i && it.is_select(r, x, p) && r + 1 == it.rank(if i < n { i + 1 } else { n }, x)),
            }
        }
        _ => {
            // successor: first occurrence of x at or after i
            match wm.successor(i, x).next() {
                None => assert!(it.rank(i, x) == it.count(x)),
                Some((r, p)) => assert!(p >= i && it.is_select(r, x, p) && r == it.rank(i, x)),
            }
        }
    }
}

/// Core mapping: map_down = stable sort position; map_down_with; map_up_with inverts; two positions.
pub fn core_queries(n: usize, maxv: u64, q: u8) {
    let (core, it) = load_core(n, maxv);
    assert!(core.len() == n && core.width() == it.width);
    let i = sym::usize();
    let x = sym::u64();
    match q {
        0 => match core.map_down(i) {
            None => assert!(i >= n),
            Some((p, val)) => assert!(i < n && val == it.v[i] && p == it.sorted_pos(i) && it.re[p] == val),
        },
        1 => {
            // map_down_with(i, x): start of x + occurrences of x before i, for values inside the alphabet width
            sym::assume(x >> it.width == 0);
            let p = core.map_down_with(i, x);
            assert!(p == it.start(x) + it.rank(i, x));
            let j = sym::usize();
            let (a, b) = core.map_down_with_two_positions(i, j, x);
            assert!(a == p && b == core.map_down_with(j, x));
        }
        _ => {
            // map_up_with inverts map_down_with on occurrences; anything else is None — never a panic
            let res = core.map_up_with(i, x);
            sym::assume(x >> it.width == 0);
            let lo = it.start(x);
            if i >= lo && i - lo < it.count(x) {
                match res { None => assert!(false), Some(p) => assert!(it.is_select(i - lo, x, p) && core.map_down_with(p, x) == i) }
            } else {
                assert!(res.is_none());
            }
        }
    }
}
