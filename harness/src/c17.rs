//! C17 — bit-level primitives.
use crate::sym;
use simple_sds::bits;

fn bit_of(a: &[u64; 3], i: usize) -> bool { (a[i >> 6] >> (i & 63)) & 1 == 1 }

/// write_int then read_int on a 3-word array: all offsets, widths, values, backgrounds.
pub fn rw_int() {
    let before: [u64; 3] = [sym::u64(), sym::u64(), sym::u64()];
    let width = sym::usize_in(1, 64);
    let offset = sym::usize();
    sym::assume(offset <= 192 - width);
    let value = sym::u64();
    let mut arr: Vec<u64> = vec![before[0], before[1], before[2]];
    unsafe { bits::write_int(&mut arr, offset, value, width); }
    let after = [arr[0], arr[1], arr[2]];
    let mask = if width == 64 { !0u64 } else { (1u64 << width) - 1 };
    let got = unsafe { bits::read_int(&arr, offset, width) };
    assert!(got == value & mask);
    // every bit of the array: inside the field = value bit, outside = unchanged
    let i = sym::usize_in(0, 191);
    if i >= offset && i < offset + width {
        assert!(bit_of(&after, i) == ((value >> (i - offset)) & 1 == 1));
    } else {
        assert!(bit_of(&after, i) == bit_of(&before, i));
    }
    sym::cover((offset & 63) + width > 64);
    sym::cover((offset & 63) + width <= 64);
    // read_int alone agrees with the bitwise definition on the untouched background
    let r = unsafe { bits::read_int(&vec![before[0], before[1], before[2]], offset, width) };
    let j = sym::usize_in(0, 63);
    if j < width {
        assert!(((r >> j) & 1 == 1) == bit_of(&before, offset + j));
    } else {
        assert!((r >> j) & 1 == 0);
    }
}

/// In-word select (the path compiled for this build) against a 64-step scan.
pub fn select_word() {
    let n = sym::u64();
    let rank = sym::usize();
    sym::assume(rank < n.count_ones() as usize);
    let got = unsafe { bits::select(n, rank) };
    let mut seen = 0usize;
    let mut expect = 64usize;
    let mut i = 0;
    while i < 64 {
        if (n >> i) & 1 == 1 {
            if seen == rank && expect == 64 { expect = i; }
            seen += 1;
        }
        i += 1;
    }
    assert!(got == expect);
}

pub fn masks() {
    let n = sym::usize_in(0, 64);
    let lo = if n == 64 { !0u64 } else { (1u64 << n) - 1 };
    let hi = if n == 0 { 0u64 } else { !0u64 << (64 - n) };
    assert!(bits::low_set(n) == lo);
    assert!(bits::high_set(n) == hi);
    assert!(unsafe { bits::low_set_unchecked(n) } == lo);
    assert!(unsafe { bits::high_set_unchecked(n) } == hi);
    assert!(bits::filler_value(true) == !0u64 && bits::filler_value(false) == 0);
}

pub fn bit_len() {
    let n = sym::u64();
    let got = bits::bit_len(n);
    assert!(got >= 1 && got <= 64);
    // got is the least k>=1 with n < 2^k
    if got < 64 { assert!(n >> got == 0); }
    if n > 1 { assert!(n >> (got - 1) == 1); } else { assert!(got == 1); }
}

pub fn reverse_low() {
    let n = sym::u64();
    let b = sym::usize_in(1, 64);
    let got = bits::reverse_low(n, b);
    let j = sym::usize_in(0, 63);
    if j < b {
        assert!(((got >> j) & 1) == ((n >> (b - 1 - j)) & 1));
    } else {
        assert!((got >> j) & 1 == 0);
    }
}

pub fn rounding() {
    let n = sym::usize();
    // documented domain: the rounded-up result is representable
    if n <= usize::MAX - 7 {
        let w = bits::bytes_to_words(n);
        assert!(w == n / 8 + (if n % 8 != 0 { 1 } else { 0 }));
        assert!(bits::round_up_to_word_bytes(n) == w * 8);
        assert!(bits::round_up_to_word_bytes(n) >= n && bits::round_up_to_word_bytes(n) - n < 8);
    }
    if n <= usize::MAX - 63 {
        let w = bits::bits_to_words(n);
        assert!(w == n / 64 + (if n % 64 != 0 { 1 } else { 0 }));
        assert!(bits::round_up_to_word_bits(n) == w * 64);
        assert!(bits::round_up_to_word_bits(n) >= n && bits::round_up_to_word_bits(n) - n < 64);
    }
    if n <= usize::MAX / 8 { assert!(bits::words_to_bytes(n) == n * 8); }
    if n <= usize::MAX / 64 { assert!(bits::words_to_bits(n) == n * 64); }
    let (idx, off) = bits::split_offset(n);
    assert!(idx == n / 64 && off == n % 64);
    assert!(bits::bit_offset(idx, off) == n);
}

/// div_round_up(value, N) for a concrete divisor N (division by a constant), value all usize
/// in the documented domain value + N <= usize::MAX.
pub fn div_round_up_const<const N: usize>() {
    let v = sym::usize();
    sym::assume(v <= usize::MAX - N);
    let got = bits::div_round_up(v, N);
    assert!(got == v / N + (if v % N != 0 { 1 } else { 0 }));
}

/// div_round_up with both arguments symbolic below 2^B (symbolic-by-symbolic division does not
/// finish at 64 bits under a bit-blasting back end).
pub fn div_round_up_small<const B: usize>() {
    let v = sym::usize();
    let n = sym::usize();
    sym::assume(n >= 1 && n < (1 << B) && v < (1 << B));
    let got = bits::div_round_up(v, n);
    assert!(got == v / n + (if v % n != 0 { 1 } else { 0 }));
}
