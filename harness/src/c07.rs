//! C07 — conformance to SERIALIZATION.md in both directions, against the independent codec of
//! doc.rs (written from the document only).
use crate::sym;
use crate::doc::{self, Doc, DCAP};
use crate::c05::{any_raw, any_int};
use crate::c01::any_bits;
use crate::c02::{any_positions, build as build_sparse, Ref};
use simple_sds::serialize::Serialize;
use simple_sds::raw_vector::RawVector;
use simple_sds::int_vector::IntVector;
use simple_sds::bit_vector::BitVector;
use simple_sds::sparse_vector::SparseVector;
use simple_sds::rl_vector::RLVector;
use simple_sds::wavelet_matrix::WaveletMatrix;
use simple_sds::ops::{BitVec, Rank, Select, SelectZero, PredSucc, Vector, Access, VectorIndex};

pub const NB: usize = 8 * DCAP;

/// Serializes with the library and returns the elements the document says the file consists of.
fn elements_of<T: Serialize>(x: &T) -> Doc {
    let mut buf = [0u8; NB];
    let size = x.size_in_bytes();
    assert!(size <= NB && size % 8 == 0);
    { let mut w: &mut [u8] = &mut buf; x.serialize(&mut w).unwrap(); }
    Doc::from_bytes(&buf, size)
}

/// Document decoder for an integer vector stored at element offset `at`; returns (len, width, next offset).
fn dec_int_header(d: &Doc, at: usize) -> (usize, usize, usize, usize) {
    let len = d.e[at] as usize; let width = d.e[at + 1] as usize;
    let bits = d.e[at + 2] as usize; let words = d.e[at + 3] as usize;
    assert!(width >= 1 && width <= 64);
    assert!(bits == len * width);                 // raw bitvector of length n*w
    assert!(words == (bits + 63) / 64);           // floor((n+63)/64) elements
    (len, width, at + 4, at + 4 + words)
}
fn dec_int_item(d: &Doc, data: usize, width: usize, i: usize) -> u64 {
    let off = i * width; let k = off >> 6; let sh = off & 63;
    let mut v = d.e[data + k] >> sh;
    if sh + width > 64 { v |= d.e[data + k + 1] << (64 - sh); }
    if width < 64 { v &= (1u64 << width) - 1; }
    v
}
fn unused_bits_zero(d: &Doc, data: usize, bits: usize) -> bool {
    let words = (bits + 63) / 64;
    if bits % 64 == 0 { true } else { d.e[data + words - 1] >> (bits % 64) == 0 }
}

// ---- direction 1: what the library writes decodes, by the document's rules, to the same content

pub fn raw_to_doc(l: usize) {
    let (v, m) = any_raw(l);
    let d = elements_of(&v);
    let words = (l + 63) / 64;
    assert!(d.n == 2 + words && d.e[0] as usize == l && d.e[1] as usize == words);
    let mut k = 0; while k < words { assert!(d.e[2 + k] == m.w[k]); k += 1; }
    assert!(unused_bits_zero(&d, 2, l));
}

pub fn int_to_doc(w: usize, n: usize) {
    let (v, m) = any_int(w, n);
    let d = elements_of(&v);
    let (len, width, data, end) = dec_int_header(&d, 0);
    assert!(len == n && width == w && end == d.n);
    let mut i = 0; while i < n { assert!(dec_int_item(&d, data, w, i) == m[i]); i += 1; }
    assert!(unused_bits_zero(&d, data, n * w));
}

/// BitVector with support subset `mask`: ones, raw bitvector, three optionals whose length
/// elements account exactly for the rest of the file.
pub fn bitvector_to_doc(l: usize, mask: u8) {
    let (raw, b) = any_bits(l);
    let mut bv = BitVector::from(raw);
    if mask & 1 != 0 { bv.enable_rank(); }
    if mask & 2 != 0 { bv.enable_select(); }
    if mask & 4 != 0 { bv.enable_select_zero(); }
    let d = elements_of(&bv);
    let words = (l + 63) / 64;
    assert!(d.e[0] as usize == b.ones());
    assert!(d.e[1] as usize == l && d.e[2] as usize == words);
    let mut k = 0; while k < words { assert!(d.e[3 + k] == b.w[k]); k += 1; }
    assert!(unused_bits_zero(&d, 3, l));
    let mut at = 3 + words;
    let mut s = 0;
    while s < 3 {
        let len = d.e[at] as usize;
        assert!((len > 0) == (mask & (1 << s) != 0));     // present exactly when enabled
        at += 1 + len;
        s += 1;
    }
    assert!(at == d.n);
}

/// SparseVector built by the library's builder: length, high (unary buckets), low parts.
pub fn sparse_to_doc(n: usize, m: usize, w: usize) {
    let r = any_positions(n, m, false);
    let v = build_sparse(&r, w, false);
    let d = elements_of(&v);
    assert!(d.e[0] as usize == n);
    let buckets = (n >> w) + (if n & ((1usize << w) - 1) != 0 { 1 } else { 0 });
    let hlen = m + buckets;                                  // exactly one bucket per slice, none after
    assert!(d.e[1] as usize == m && d.e[2] as usize == hlen && d.e[3] as usize == (hlen + 63) / 64);
    let hdata = 4; let hwords = (hlen + 63) / 64;
    assert!(unused_bits_zero(&d, hdata, hlen));
    // skip the three optional supports of `high`
    let mut at = hdata + hwords; let mut s = 0;
    while s < 3 { at += 1 + d.e[at] as usize; s += 1; }
    let (len, width, data, end) = dec_int_header(&d, at);
    assert!(len == m && width == w && end == d.n);
    // i-th value = low[i] + ((high.select(i) - i) << w)
    let mut i = 0; let mut seen = 0usize; let mut pos = 0usize;
    while pos < hlen {
        if (d.e[hdata + (pos >> 6)] >> (pos & 63)) & 1 == 1 {
            let val = (dec_int_item(&d, data, w, seen) as usize) + ((pos - seen) << w);
            assert!(seen < m && val == r.p[seen]);
            seen += 1;
        }
        pos += 1;
    }
    assert!(seen == m);
    let _ = i; i = 0; let _ = i;
}

/// WaveletMatrix (assembled from parts) serializes as: len, width, one bitvector per level, first[].
pub fn wm_to_doc(n: usize, maxv: u64, fw: usize) {
    let (wm, it) = crate::c04::load_wm(n, maxv, fw);
    let d = elements_of(&wm);
    let mut expect = Doc::new();
    doc::enc_wm(&mut expect, &it.v, n, it.width, it.sigma, fw);
    // the library's bytes equal the document encoder's bytes except for the optional supports,
    // which the document leaves to the writer: compare field by field
    assert!(d.e[0] as usize == n && d.e[1] as usize == it.width);
    let mut at = 2; let mut ex = 2; let mut level = 0;
    while level < it.width {
        assert!(d.e[at] == expect.e[ex] && d.e[at + 1] == expect.e[ex + 1] && d.e[at + 2] == expect.e[ex + 2]);
        let words = d.e[at + 2] as usize;
        let mut k = 0; while k < words { assert!(d.e[at + 3 + k] == expect.e[ex + 3 + k]); k += 1; }
        at += 3 + words; ex += 3 + words;
        let mut s = 0; while s < 3 { at += 1 + d.e[at] as usize; ex += 1; s += 1; }
        level += 1;
    }
    let (len, width, data, end) = dec_int_header(&d, at);
    assert!(len == it.sigma && width == fw && end == d.n);
    let mut k = 0; while k < it.sigma { assert!(dec_int_item(&d, data, fw, k) == expect_first(&it, k)); k += 1; }
}
fn expect_first(it: &crate::c04::Items, v: usize) -> u64 { if it.count(v as u64) == 0 { it.n as u64 } else { it.start(v as u64) as u64 } }

/// first[] as computed by the library (private start_offsets through the hook): definition and minimal width.
pub fn wm_first(n: usize, maxv: u64) {
    let mut v = [0u64; 8]; let mut has = false;
    let mut i = 0; while i < n { v[i] = sym::u64(); sym::assume(v[i] <= maxv); if v[i] == maxv { has = true; } i += 1; }
    sym::assume(has || n == 0);
    let f = WaveletMatrix::verif_start_offsets(v[..n].iter().copied(), n, maxv);
    let width = doc::bit_len(maxv);
    let items = crate::c04::Items { n, width, sigma: (maxv + 1) as usize, v, re: [0; 8] };
    assert!(f.len() == (maxv + 1) as usize);
    let mut mx = 0u64; let mut k = 0;
    while k <= maxv as usize { let e = expect_first(&items, k); assert!(f.get(k) == e); if e > mx { mx = e; } k += 1; }
    assert!(f.width() == doc::bit_len(mx));     // "first must be bit-packed to minimize its width"
}

// ---- direction 2: a file produced from the document's rules alone loads and answers queries

fn load_from<T: Serialize>(d: &Doc) -> T {
    let bytes = d.bytes();
    let mut r: &[u8] = &bytes[..8 * d.n];
    let x = T::load(&mut r).unwrap();
    assert!(r.len() == 0);
    x
}

/// Sparse vector written with ANY admissible low width `w` (not the library's rule) and no
/// support structures on `high`.
pub fn doc_to_sparse(n: usize, m: usize, w: usize, q: u8) {
    #[cfg(kani)]
    { crate::stubs_bv::set_scan(m + (n >> w) + 1); }
    let r = any_positions(n, m, false);
    let mut d = Doc::new();
    doc::enc_sparse(&mut d, n, &r.p, m, w);
    let v: SparseVector = load_from(&d);
    assert!(v.len() == n && v.count_ones() == m);
    let i = sym::usize();
    match q {
        0 => match v.select(i) { None => assert!(i >= m), Some(p) => assert!(p == r.p[i]) },
        1 => { assert!(v.rank(i) == r.rank(i)); if i < n { assert!(v.get(i) == r.contains(i)); } }
        2 => match v.select_zero(i) { None => assert!(i >= n - m), Some(q) => assert!(q < n && !r.contains(q) && q - r.rank(q) == i) },
        _ => {
            match v.predecessor(i).next() { None => assert!(r.rank_le(i) == 0), Some((rk, p)) => assert!(rk + 1 == r.rank_le(i) && p == r.p[rk]) }
            match v.successor(i).next() { None => assert!(r.rank(i) == m), Some((rk, p)) => assert!(rk == r.rank(i) && p == r.p[rk]) }
        }
    }
}

pub fn doc_to_int(w: usize, n: usize) {
    let mut items = [0u64; 16]; let mut i = 0;
    while i < n { items[i] = sym::u64(); if w < 64 { sym::assume(items[i] >> w == 0); } i += 1; }
    let mut d = Doc::new();
    d.int_vector(&items, n, w);
    let v: IntVector = load_from(&d);
    assert!(v.len() == n && v.width() == w);
    let j = sym::usize();
    if j < n { assert!(v.get(j) == items[j]); }
}

pub fn doc_to_bitvector(l: usize) {
    let (_, b) = any_bits(l);
    let mut d = Doc::new();
    d.bitvector(l, &b.w);
    let mut v: BitVector = load_from(&d);
    assert!(v.len() == l && v.count_ones() == b.ones());
    assert!(!v.supports_rank() && !v.supports_select() && !v.supports_select_zero());
    v.enable_rank();
    let j = sym::usize();
    assert!(v.rank(j) == b.rank(j));
    if j < l { assert!(v.get(j) == b.bit(j)); }
}

pub fn doc_to_wm(n: usize, maxv: u64, fw: usize) {
    #[cfg(kani)]
    { crate::stubs_bv::set_scan(n); }
    let mut v = [0u64; 8]; let mut has = false;
    let mut i = 0; while i < n { v[i] = sym::u64(); sym::assume(v[i] <= maxv); if v[i] == maxv { has = true; } i += 1; }
    sym::assume(has || n == 0);
    let width = doc::bit_len(maxv); let sigma = (maxv + 1) as usize;
    let mut d = Doc::new();
    let re = doc::enc_wm(&mut d, &v, n, width, sigma, fw);
    let f = doc::first_of(&re, n, sigma);
    let mut mx = 0u64; let mut k = 0; while k < sigma { if f[k] > mx { mx = f[k]; } k += 1; }
    sym::assume(doc::bit_len(mx) == fw);
    let wm: WaveletMatrix = load_from(&d);
    assert!(wm.len() == n && wm.width() == width);
    let j = sym::usize();
    if j < n { assert!(wm.get(j) == v[j]); }
    let x = sym::u64();
    let items = crate::c04::Items { n, width, sigma, v, re };
    assert!(wm.rank(j, x) == items.rank(j, x));
}

pub fn doc_to_rl(units: &[(usize, usize)], sw: usize) {
    // same layout logic as c03::any_rl, but through bytes and RLVector::load
    let r = units.len();
    let mut runs = [(0usize, 0usize); 8];
    let mut tail = 0usize; let mut i = 0;
    while i < r {
        let (gu, lu) = units[i];
        let gap = sym::u64(); let lm1 = sym::u64();
        sym::assume(doc::code_len(gap) == gu && doc::code_len(lm1) == lu);
        if i > 0 { sym::assume(gap >= 1); }
        sym::assume(gap <= (usize::MAX - tail) as u64);
        let start = tail + gap as usize;
        sym::assume(lm1 < (usize::MAX - start) as u64);
        runs[i] = (start, lm1 as usize + 1);
        tail = start + lm1 as usize + 1;
        i += 1;
    }
    let extra = sym::usize(); sym::assume(extra <= usize::MAX - tail);
    let len = tail + extra;
    let mut d = Doc::new();
    // sample width must be minimal: bit length of the last block's bit offset
    let (blocks, _nd) = doc::enc_rl(&mut d, len, &runs, r, units, sw);
    let _ = blocks;
    let v: RLVector = load_from(&d);
    let mut ones = 0usize; let mut k = 0; while k < r { ones += runs[k].1; k += 1; }
    assert!(v.len() == len && v.count_ones() == ones);
    let mut it = v.run_iter();
    let mut k = 0; while k < 8 { if k < r { assert!(it.next() == Some(runs[k])); } k += 1; }
    assert!(it.next().is_none());
}
