//! C03 — run-length bitvector queries against the run list. The vector is assembled from its
//! serialized parts (samples + code units laid out per the format document) through the
//! cfg(simple_sds_verif) hook RLVector::verif_from_parts, which rebuilds the sample indexes
//! exactly as `load` does. Each run's gap and length belong to a concrete code-length class
//! (number of 3-bit units), so the layout (units, padding, blocks) is concrete while every
//! payload bit is symbolic.
use crate::sym;
use simple_sds::rl_vector::RLVector;
use simple_sds::int_vector::IntVector;
use simple_sds::ops::{BitVec, Rank, Select, SelectZero, PredSucc, Access, Vector};

pub const MR: usize = 8;

#[derive(Clone, Copy)]
pub struct Runs { pub r: usize, pub len: usize, pub ones: usize, pub s: [usize; MR], pub l: [usize; MR] }

fn class_lo(u: usize) -> u64 { if u == 1 { 0 } else { 1u64 << (3 * (u - 1)) } }
fn class_hi(u: usize) -> u64 { if 3 * u >= 64 { u64::MAX } else { (1u64 << (3 * u)) - 1 } }

fn add(a: usize, b: usize) -> usize { sym::assume(b <= usize::MAX - a); a + b }

/// Symbolic maximal runs whose (gap, len-1) values lie in the given code-length classes, plus
/// `trailing` unset bits (symbolic when `trail` is true). Also lays out the encoding.
pub fn any_rl(units: &[(usize, usize)], sw: usize, trail: bool) -> (RLVector, Runs) {
    let r = units.len();
    let mut runs = Runs { r, len: 0, ones: 0, s: [0; MR], l: [0; MR] };
    let mut data = [0u64; 200];
    let mut nd = 0usize; let mut blocks = 0usize;
    let mut samples = [0u64; 2 * MR];
    let mut tail = 0usize; let mut ones = 0usize;
    let mut i = 0;
    while i < r {
        let (gu, lu) = units[i];
        let gap = sym::u64(); let lm1 = sym::u64();
        sym::assume(gap >= class_lo(gu) && gap <= class_hi(gu));
        sym::assume(lm1 >= class_lo(lu) && lm1 <= class_hi(lu));
        if i > 0 { sym::assume(gap >= 1); }             // maximal runs
        let start = add(tail, gap as usize);
        let len = add(lm1 as usize, 1);
        let end = add(start, len);
        runs.s[i] = start; runs.l[i] = len;
        // block layout per the document: whole runs per 64-unit block, zero padding
        if nd + gu + lu > blocks * 64 {
            nd = blocks * 64;
            samples[2 * blocks] = ones as u64; samples[2 * blocks + 1] = tail as u64;
            blocks += 1;
        }
        let mut v = gap; let mut k = 0;
        while k < gu { data[nd] = (v & 7) | (if k + 1 < gu { 8 } else { 0 }); v >>= 3; nd += 1; k += 1; }
        let mut v = lm1; let mut k = 0;
        while k < lu { data[nd] = (v & 7) | (if k + 1 < lu { 8 } else { 0 }); v >>= 3; nd += 1; k += 1; }
        tail = end;
        ones = add(ones, len);
        i += 1;
    }
    let extra = if trail { sym::usize() } else { 0 };
    runs.len = add(tail, extra);
    runs.ones = ones;
    // samples: minimal width = bit length of the largest sample (the last block's bit offset)
    let maxs = if blocks == 0 { 0 } else { samples[2 * blocks - 1] };
    sym::assume(crate::doc::bit_len(maxs) == sw);
    let mut sv = IntVector::with_len(2 * blocks, sw, 0).unwrap();
    let mut k = 0;
    while k < 2 * blocks { sv.set(k, samples[k]); k += 1; }
    let mut dv = IntVector::with_len(nd, 4, 0).unwrap();
    let mut k = 0;
    while k < nd { dv.set(k, data[k]); k += 1; }
    let v = RLVector::verif_from_parts(runs.len, runs.ones, sv, dv);
    (v, runs)
}

impl Runs {
    pub fn rank(&self, i: usize) -> usize {
        let mut k = 0; let mut res = 0usize;
        while k < MR { if k < self.r && i > self.s[k] { let d = i - self.s[k]; res += if d < self.l[k] { d } else { self.l[k] }; } k += 1; }
        res
    }
    pub fn get(&self, i: usize) -> bool {
        let mut k = 0; let mut res = false;
        while k < MR { if k < self.r && i >= self.s[k] && i - self.s[k] < self.l[k] { res = true; } k += 1; }
        res
    }
    pub fn is_select(&self, r: usize, p: usize) -> bool { p < self.len && self.get(p) && self.rank(p) == r }
    pub fn is_select_zero(&self, r: usize, p: usize) -> bool { p < self.len && !self.get(p) && p - self.rank(p) == r }
}

pub fn queries(units: &[(usize, usize)], sw: usize, trail: bool, q: u8) {
    let (v, runs) = any_rl(units, sw, trail);
    let i = sym::usize();
    match q {
        0 => {
            assert!(v.len() == runs.len && v.count_ones() == runs.ones && v.count_zeros() == runs.len - runs.ones);
            assert!(v.is_empty() == (runs.len == 0));
            if i < runs.len { assert!(v.get(i) == runs.get(i)); }
        }
        1 => {
            assert!(v.rank(i) == runs.rank(if i < runs.len { i } else { runs.len }));
            if i <= runs.len { assert!(v.rank_zero(i) == i - runs.rank(i)); }
        }
        2 => match v.select(i) { None => assert!(i >= runs.ones), Some(p) => assert!(i < runs.ones && runs.is_select(i, p)) },
        3 => match v.select_zero(i) { None => assert!(i >= runs.len - runs.ones), Some(p) => assert!(i < runs.len - runs.ones && runs.is_select_zero(i, p)) },
        4 => match v.predecessor(i).next() {
            None => assert!(runs.rank(if i < runs.len { i + 1 } else { runs.len }) == 0),
            Some((r, p)) => assert!(p <= i && runs.is_select(r, p) && r + 1 == runs.rank(if i < runs.len { i + 1 } else { runs.len })),
        },
        5 => match v.successor(i).next() {
            None => assert!(i >= runs.len || runs.rank(i) == runs.ones),
            Some((r, p)) => assert!(i < runs.len && p >= i && runs.is_select(r, p) && r == runs.rank(i)),
        },
        6 => {
            // run iterator: exactly the maximal runs, in order, with running offset / rank
            let mut it = v.run_iter();
            let mut k = 0; let mut ones = 0usize;
            while k < MR {
                if k < runs.r {
                    assert!(it.next() == Some((runs.s[k], runs.l[k])));
                    ones += runs.l[k];
                    assert!(it.offset() == runs.s[k] + runs.l[k] && it.rank() == ones && it.rank_zero() == it.offset() - ones);
                }
                k += 1;
            }
            assert!(it.next().is_none() && it.next().is_none());
        }
        7 => {
            // select_iter / one_iter: consecutive ranks
            let mut it = v.select_iter(i);
            match it.next() {
                None => assert!(i >= runs.ones),
                Some((r, p)) => {
                    assert!(r == i && runs.is_select(i, p));
                    assert!(it.len() == runs.ones - i - 1);
                    match it.next() { None => assert!(i + 1 == runs.ones), Some((r2, p2)) => assert!(r2 == i + 1 && runs.is_select(r2, p2)) }
                }
            }
            match v.one_iter().next() { None => assert!(runs.ones == 0), Some((r, p)) => assert!(r == 0 && runs.is_select(0, p)) }
        }
        _ => {
            let zeros = runs.len - runs.ones;
            let mut it = v.select_zero_iter(i);
            match it.next() {
                None => assert!(i >= zeros),
                Some((r, p)) => {
                    assert!(r == i && runs.is_select_zero(i, p));
                    assert!(it.len() == zeros - i - 1);
                    match it.next() { None => assert!(i + 1 == zeros), Some((r2, p2)) => assert!(r2 == i + 1 && runs.is_select_zero(r2, p2)) }
                }
            }
            match v.zero_iter().next() { None => assert!(zeros == 0), Some((r, p)) => assert!(r == 0 && runs.is_select_zero(0, p)) }
        }
    }
}

/// SampleIndex::new + range with the REAL code: `nv` symbolic strictly increasing values starting
/// at 0 below a concrete universe (so that the divisions of `parameters` are concrete);
/// range(v) for a symbolic v < universe brackets v as documented.
pub fn sample_index(nv: usize, universe: usize) {
    use simple_sds::rl_vector::index::SampleIndex;
    let mut vals = [0usize; 20];
    let mut k = 1;
    while k < nv { vals[k] = sym::usize(); sym::assume(vals[k] > vals[k - 1] && vals[k] < universe); k += 1; }
    let idx = SampleIndex::new(vals[..nv].iter().copied(), universe);
    let v = sym::usize();
    sym::assume(v < universe);
    let r = idx.range(v);
    assert!(r.start < r.end && r.end <= nv);
    assert!(vals[r.start] <= v);
    if r.end < nv { assert!(vals[r.end] > v); }
}
