#![cfg(kani)]
//! Ghost file (C12, C14 writer half): replaces the three std entry points the buffered
//! writers reach the OS through -- `OpenOptions::open`, `<File as Write>::write`,
//! `<File as Seek>::seek` -- by a fixed byte array with a cursor and a length (high-water
//! mark). `<File as Write>::write_all` is a trait default and stays REAL: its loop over
//! this `write` (short counts, errors) is part of what is checked. `close(2)`, reached from
//! `OwnedFd::drop`, comes from the linked C model `models/close_model.c`.
//!
//! Contract kept (a stub may only be at least as permissive as what it replaces):
//! * open(create+write+truncate): empty file, offset 0; may fail (`OPEN_FAIL`).
//! * write(buf): transfers k <= buf.len() bytes at the offset, advances the offset, extends
//!   the length; a write that starts beyond the end zero-fills the gap (POSIX);
//!   a failing write is reported as Ok(0) -> the real write_all returns Err(WriteZero), see `fail`;
//!   failure models: `LIMIT` = file-size limit as RLIMIT_FSIZE on Linux (a write straddling
//!   the limit is short, a write at/after it fails); `BUDGET` = the device accepts that many
//!   bytes in total, then every write fails (the straddling write is short or fails, `SHORT`);
//!   `CHOP` = every write transfers at most that many bytes (short writes that later succeed).
//! * seek: Start/Current/End arithmetic, negative result = error.
use std::fs::{File, OpenOptions};
use std::io::{self, SeekFrom};
use std::os::unix::io::FromRawFd;
use std::path::Path;

pub const GHOST_CAP: usize = 96;
pub const GHOST_FD: i32 = 3;
pub const NO_LIMIT: usize = usize::MAX;

static mut BYTES: [u8; GHOST_CAP] = [0xA5; GHOST_CAP];
static mut CURSOR: usize = 0;
static mut HIGH: usize = 0;
static mut OPENS: usize = 0;
static mut WRITE_CALLS: usize = 0;
static mut FAILED_WRITES: usize = 0;
static mut LIMIT: usize = NO_LIMIT;
static mut BUDGET: usize = NO_LIMIT;
static mut SHORT: bool = true;
static mut CHOP: usize = NO_LIMIT;
static mut OPEN_FAIL: bool = false;
static mut STORE: bool = true;

extern "C" {
    // models/close_model.c
    fn kv_close_count() -> i32;
    fn kv_close_last_fd() -> i32;
    fn kv_close_reset() -> i32;
}

pub fn reset() {
    unsafe {
        CURSOR = 0; HIGH = 0; OPENS = 0; WRITE_CALLS = 0; FAILED_WRITES = 0;
        LIMIT = NO_LIMIT; BUDGET = NO_LIMIT; SHORT = true; CHOP = NO_LIMIT; OPEN_FAIL = false; STORE = true;
        kv_close_reset();
    }
}
pub fn set_limit(l: usize) { unsafe { LIMIT = l; } }
pub fn set_budget(b: usize, short: bool) { unsafe { BUDGET = b; SHORT = short; } }
pub fn set_chop(c: usize) { unsafe { CHOP = c; } }
pub fn set_open_fail(f: bool) { unsafe { OPEN_FAIL = f; } }
/// Offsets and length only: the content is not kept (templates that never look at it, with
/// symbolic faults: byte stores at symbolic offsets are what makes those instances expensive).
pub fn set_store(f: bool) { unsafe { STORE = f; } }

pub fn len() -> usize { unsafe { HIGH } }
pub fn byte(i: usize) -> u8 { unsafe { assert!(STORE, "ghost file: content was not kept"); BYTES[i] } }
pub fn opens() -> usize { unsafe { OPENS } }
pub fn write_calls() -> usize { unsafe { WRITE_CALLS } }
pub fn failed_writes() -> usize { unsafe { FAILED_WRITES } }
pub fn closes() -> usize { unsafe { kv_close_count() as usize } }
pub fn last_closed_fd() -> i32 { unsafe { kv_close_last_fd() } }

/// A write that cannot transfer anything. It is reported as `Ok(0)` ("no longer able to accept
/// bytes" in the contract of `Write::write`), which the REAL `write_all` turns into
/// `Err(ErrorKind::WriteZero)`, and not as `Err(e)`: with a symbolic fault the discriminant of
/// `write`'s result would be symbolic, symbolic execution would then walk into the drop glue of
/// io::Error inside `write_all` (on infeasible paths it cannot prune), and that drop glue recurses
/// through an unresolved indirect call (measured: out of memory). The writers under test never
/// look at the error value, they only propagate it (`?`) or unwrap it.
fn fail() -> io::Result<usize> {
    unsafe { FAILED_WRITES += 1; }
    Ok(0)
}

/// `std::fs::OpenOptions::open`
pub fn ghost_open<P: AsRef<Path>>(_opts: &OpenOptions, _path: P) -> io::Result<File> {
    unsafe {
        if OPEN_FAIL {
            return Err(io::Error::from(io::ErrorKind::PermissionDenied));
        }
        OPENS += 1;
        CURSOR = 0;
        HIGH = 0;
        Ok(File::from_raw_fd(GHOST_FD))
    }
}

/// `<std::fs::File as std::io::Write>::write`
pub fn ghost_write(_f: &mut File, buf: &[u8]) -> io::Result<usize> {
    unsafe {
        WRITE_CALLS += 1;
        let n = buf.len();
        if n == 0 {
            return Ok(0);
        }
        let mut k = n;
        if k > CHOP { k = CHOP; }
        if LIMIT != NO_LIMIT {
            if CURSOR >= LIMIT { return fail(); }
            if k > LIMIT - CURSOR { k = LIMIT - CURSOR; }
        }
        if BUDGET != NO_LIMIT {
            if BUDGET == 0 { return fail(); }
            if k > BUDGET {
                if SHORT { k = BUDGET; } else { BUDGET = 0; return fail(); }
            }
            BUDGET -= k;
        }
        assert!(CURSOR <= GHOST_CAP && k <= GHOST_CAP - CURSOR, "ghost file: fixed capacity exceeded");
        if STORE {
            // a write that starts beyond the end leaves a zero-filled gap
            let mut g = HIGH;
            while g < CURSOR { BYTES[g] = 0; g += 1; }
            let mut i = 0;
            while i < n { if i < k { BYTES[CURSOR + i] = buf[i]; } i += 1; }
        }
        CURSOR += k;
        if CURSOR > HIGH { HIGH = CURSOR; }
        Ok(k)
    }
}

/// `<std::fs::File as std::io::Seek>::seek`
pub fn ghost_seek(_f: &mut File, pos: SeekFrom) -> io::Result<u64> {
    unsafe {
        let (base, delta): (u64, i64) = match pos {
            SeekFrom::Start(n) => (n, 0),
            SeekFrom::Current(d) => (CURSOR as u64, d),
            SeekFrom::End(d) => (HIGH as u64, d),
        };
        let target = if delta >= 0 { base.checked_add(delta as u64) } else { base.checked_sub(delta.unsigned_abs()) };
        match target {
            Some(t) if t <= i64::MAX as u64 => { CURSOR = t as usize; Ok(t) }
            _ => Err(io::Error::from(io::ErrorKind::InvalidInput)),
        }
    }
}

/// `core::result::unwrap_failed` (the diverging tail of `Result::unwrap`/`expect` on `Err`), only in
/// the C14 templates whose pushes may hit a failing write: the writers document "may panic from
/// I/O errors" for push. The path is CUT where the real code decides to panic, so the real code
/// still decides: a push that swallowed the error instead would return normally and the
/// template's final assertion (no success report for an incomplete file) would see it.
pub fn unwrap_failed_cut(_msg: &str, _error: &dyn core::fmt::Debug) -> ! {
    kani::assume(false);
    loop {}
}

/// `std::io::Error::is_interrupted` (used by the real `write_all` to retry on EINTR): no error that
/// the ghost file, the failing sink or the code under test creates has kind `Interrupted`, so the
/// answer is `false` for every error that exists in these harnesses. Needed because the tag bits
/// of an io::Error are opaque to symbolic execution: the retry arm (which also DROPS the error,
/// and that drop glue recurses through an unresolved indirect call) would stay open.
pub fn never_interrupted(_e: &io::Error) -> bool {
    false
}
