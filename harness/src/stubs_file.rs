#![cfg(kani)]
//! Ghost file (C12, C14 writer half): replaces the three std entry points the buffered
//! writers reach the OS through -- `OpenOptions::open`, `<File as Write>::write`,
//! `<File as Seek>::seek` -- by a fixed byte array with a cursor and a length (high-water
//! mark). `<File as Write>::write_all` is a trait default and stays REAL: its loop over
//! this `write` (short counts, errors) is part of what is checked. `close(2)`, reached from
//! `OwnedFd::drop`, comes from the linked C model `models/close_model.c`.
//!
//! Contract kept (a stub may only be at least as permissive as what it replaces):
//! * open(create+write+truncate): empty file, offset 0; may fail (`OPEN_FAIL`).
//! * write(buf): transfers k <= buf.len() bytes at the offset, advances the offset, extends
//!   the length; a write that starts beyond the end zero-fills the gap (POSIX);
//!   a failing write is reported as Ok(0) -> the real write_all returns Err(WriteZero), see `fail`;
//!   failure models: `LIMIT` = file-size limit as RLIMIT_FSIZE on Linux (a write straddling
//!   the limit is short, a write at/after it fails); `BUDGET` = the device accepts that many
//!   bytes in total, then every write fails (the straddling write is short or fails, `SHORT`);
//!   `CHOP` = every write transfers at most that many bytes (short writes that later succeed).
//! * seek: Start/Current/End arithmetic, negative result = error.
use std::fs::{File, OpenOptions};
use std::io::{self, SeekFrom};
use std::os::unix::io::FromRawFd;
use std::path::Path;

pub const GHOST_CAP: usize = 96;
pub const GHOST_FD: i32 = 3;
pub const NO_LIMIT: usize = usize::MAX;

// All state lives in ONE static whose bytes are not all zero (`magic`): kani-compiler 0.68 can
// alias a zero-initialised `static mut X: usize = 0` of the harness crate with rustc's interned
// all-zero constant (RawVec's zero capacity then changes when the static is written -- seen here
// as a spurious __rust_dealloc alarm for an empty Vec).
struct Ghost {
    magic: u64,
    bytes: [u8; GHOST_CAP],
    cursor: usize,
    high: usize,
    opens: usize,
    write_calls: usize,
    failed_writes: usize,
    limit: usize,
    budget: usize,
    chop: usize,
    short: bool,
    open_fail: bool,
    store: bool,
}
static mut G: Ghost = Ghost {
    magic: 0x5EED_F11E_C0DE_0001, bytes: [0xA5; GHOST_CAP], cursor: 0, high: 0, opens: 0, write_calls: 0, failed_writes: 0,
    limit: NO_LIMIT, budget: NO_LIMIT, chop: NO_LIMIT, short: true, open_fail: false, store: true,
};

extern "C" {
    // models/close_model.c
    fn kv_close_count() -> i32;
    fn kv_close_last_fd() -> i32;
    fn kv_close_reset() -> i32;
}

pub fn reset() {
    unsafe {
        G.cursor = 0; G.high = 0; G.opens = 0; G.write_calls = 0; G.failed_writes = 0;
        G.limit = NO_LIMIT; G.budget = NO_LIMIT; G.short = true; G.chop = NO_LIMIT; G.open_fail = false; G.store = true;
        kv_close_reset();
    }
}
pub fn set_limit(l: usize) { unsafe { G.limit = l; } }
pub fn set_budget(b: usize, short: bool) { unsafe { G.budget = b; G.short = short; } }
pub fn set_chop(c: usize) { unsafe { G.chop = c; } }
pub fn set_open_fail(f: bool) { unsafe { G.open_fail = f; } }
/// Offsets and length only: the content is not kept (templates that never look at it, with
/// symbolic faults: byte stores at symbolic offsets are what makes those instances expensive).
pub fn set_store(f: bool) { unsafe { G.store = f; } }

pub fn len() -> usize { unsafe { G.high } }
pub fn byte(i: usize) -> u8 { unsafe { assert!(G.store, "ghost file: content was not kept"); G.bytes[i] } }
pub fn opens() -> usize { unsafe { G.opens } }
pub fn write_calls() -> usize { unsafe { G.write_calls } }
pub fn failed_writes() -> usize { unsafe { G.failed_writes } }
pub fn closes() -> usize { unsafe { kv_close_count() as usize } }
pub fn last_closed_fd() -> i32 { unsafe { kv_close_last_fd() } }

/// A write that cannot transfer anything. It is reported as `Ok(0)` ("no longer able to accept
/// bytes" in the contract of `Write::write`), which the REAL `write_all` turns into
/// `Err(ErrorKind::WriteZero)`, and not as `Err(e)`: with a symbolic fault the discriminant of
/// `write`'s result would be symbolic, symbolic execution would then walk into the drop glue of
/// io::Error inside `write_all` (on infeasible paths it cannot prune), and that drop glue recurses
/// through an unresolved indirect call (measured: out of memory). The writers under test never
/// look at the error value, they only propagate it (`?`) or unwrap it.
fn fail() -> io::Result<usize> {
    unsafe { G.failed_writes += 1; }
    Ok(0)
}

/// `std::fs::OpenOptions::open`
pub fn ghost_open<P: AsRef<Path>>(_opts: &OpenOptions, _path: P) -> io::Result<File> {
    unsafe {
        if G.open_fail {
            return Err(io::Error::from(io::ErrorKind::PermissionDenied));
        }
        G.opens += 1;
        G.cursor = 0;
        G.high = 0;
        Ok(File::from_raw_fd(GHOST_FD))
    }
}

/// `<std::fs::File as std::io::Write>::write`
pub fn ghost_write(_f: &mut File, buf: &[u8]) -> io::Result<usize> {
    unsafe {
        G.write_calls += 1;
        let n = buf.len();
        if n == 0 {
            return Ok(0);
        }
        let mut k = n;
        if k > G.chop { k = G.chop; }
        if G.limit != NO_LIMIT {
            if G.cursor >= G.limit { return fail(); }
            if k > G.limit - G.cursor { k = G.limit - G.cursor; }
        }
        if G.budget != NO_LIMIT {
            if G.budget == 0 { return fail(); }
            if k > G.budget {
                if G.short { k = G.budget; } else { G.budget = 0; return fail(); }
            }
            G.budget -= k;
        }
        assert!(G.cursor <= GHOST_CAP && k <= GHOST_CAP - G.cursor, "ghost file: fixed capacity exceeded");
        if G.store {
            // a write that starts beyond the end leaves a zero-filled gap
            let mut g = G.high;
            while g < G.cursor { G.bytes[g] = 0; g += 1; }
            let mut i = 0;
            while i < n { if i < k { G.bytes[G.cursor + i] = buf[i]; } i += 1; }
        }
        G.cursor += k;
        if G.cursor > G.high { G.high = G.cursor; }
        Ok(k)
    }
}

/// `<std::fs::File as std::io::Seek>::seek`
pub fn ghost_seek(_f: &mut File, pos: SeekFrom) -> io::Result<u64> {
    unsafe {
        let (base, delta): (u64, i64) = match pos {
            SeekFrom::Start(n) => (n, 0),
            SeekFrom::Current(d) => (G.cursor as u64, d),
            SeekFrom::End(d) => (G.high as u64, d),
        };
        let target = if delta >= 0 { base.checked_add(delta as u64) } else { base.checked_sub(delta.unsigned_abs()) };
        match target {
            Some(t) if t <= i64::MAX as u64 => { G.cursor = t as usize; Ok(t) }
            _ => Err(io::Error::from(io::ErrorKind::InvalidInput)),
        }
    }
}

/// `core::result::unwrap_failed` (the diverging tail of `Result::unwrap`/`expect` on `Err`), only in
/// the C14 templates whose pushes may hit a failing write: the writers document "may panic from
/// I/O errors" for push. The path is CUT where the real code decides to panic, so the real code
/// still decides: a push that swallowed the error instead would return normally and the
/// template's final assertion (no success report for an incomplete file) would see it.
pub fn unwrap_failed_cut(_msg: &str, _error: &dyn core::fmt::Debug) -> ! {
    kani::assume(false);
    loop {}
}

/// `std::io::Error::is_interrupted` (used by the real `write_all` to retry on EINTR): no error that
/// the ghost file, the failing sink or the code under test creates has kind `Interrupted`, so the
/// answer is `false` for every error that exists in these harnesses. Needed because the tag bits
/// of an io::Error are opaque to symbolic execution: the retry arm (which also DROPS the error,
/// and that drop glue recurses through an unresolved indirect call) would stay open.
pub fn never_interrupted(_e: &io::Error) -> bool {
    false
}
