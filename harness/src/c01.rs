//! C01 — plain bitvector: access, rank, select, predecessor/successor with the REAL
//! support structures, against the scan definition over the symbolic words.
use crate::sym;
use crate::oracle::{Bits, OW};
use simple_sds::bit_vector::BitVector;
use simple_sds::raw_vector::{RawVector, AccessRaw, PushRaw};
use simple_sds::ops::{BitVec, Rank, Select, SelectZero, PredSucc};

/// R4: selects the superblock regime of the SelectSupport structures built from now on, through the
/// cfg(simple_sds_verif) hook (works under Kani and natively, so counterexamples replay).
pub fn set_regime(long: bool) {
    use simple_sds::bit_vector::select_support::{VERIF_FORCE_LONG, VERIF_FORCE_LONG_ON, VERIF_FORCE_LONG_OFF};
    VERIF_FORCE_LONG.store(if long { VERIF_FORCE_LONG_ON } else { VERIF_FORCE_LONG_OFF }, std::sync::atomic::Ordering::Relaxed);
}

/// Arbitrary bit content of concrete length `l` (<= 64*OW) as RawVector + oracle.
pub fn any_bits(l: usize) -> (RawVector, Bits) {
    let mut b = Bits { len: l, w: [0; OW] };
    let mut v = RawVector::with_len(l, false);
    let mut k = 0;
    while k * 64 < l {
        let width = if l - k * 64 >= 64 { 64 } else { l - k * 64 };
        let x = sym::u64();
        let x = if width == 64 { x } else { x & ((1u64 << width) - 1) };
        b.w[k] = x;
        unsafe { v.set_int(k * 64, x, width); }
        k += 1;
    }
    (v, b)
}

pub fn basic(l: usize) {
    let (raw, b) = any_bits(l);
    let bv = BitVector::from(raw.clone());
    assert!(bv.len() == l);
    assert!(bv.is_empty() == (l == 0));
    assert!(bv.count_ones() == b.ones());
    assert!(bv.count_zeros() == l - b.ones());
    let i = sym::usize();
    if i < l { assert!(bv.get(i) == b.bit(i)); }
    assert!(!bv.supports_rank() && !bv.supports_select() && !bv.supports_select_zero() && !bv.supports_pred_succ());
    // round trip back to the raw vector
    let back: RawVector = RawVector::from(bv.clone());
    assert!(back == raw);
}

/// FromIterator<bool> route == From<RawVector> route.
pub fn from_iter(l: usize) {
    let (raw, b) = any_bits(l);
    let a = BitVector::from(raw);
    let mut items = [false; 130];
    let mut i = 0;
    while i < l { items[i] = b.bit(i); i += 1; }
    let c: BitVector = items[..l].iter().copied().collect();
    assert!(c.len() == l && c.count_ones() == b.ones());
    assert!(a == c);
}

pub fn rank(l: usize) {
    let (raw, b) = any_bits(l);
    let mut bv = BitVector::from(raw);
    bv.enable_rank();
    assert!(bv.supports_rank());
    let i = sym::usize();
    assert!(bv.rank(i) == b.rank(i));
    if i <= l { assert!(bv.rank_zero(i) == i - b.rank(i)); }
    sym::cover(i < l && (i & 511) >= 64);
    sym::cover(i >= l);
}

/// select with the real SelectSupport<Identity>.
pub fn select(l: usize, long: bool) {
    set_regime(long);
    let (raw, b) = any_bits(l);
    let mut bv = BitVector::from(raw);
    bv.enable_select();
    assert!(bv.supports_select());
    let ones = b.ones();
    let r = sym::usize();
    match bv.select(r) {
        None => assert!(r >= ones),
        Some(p) => { assert!(r < ones); assert!(b.is_select(r, p)); }
    }
}

/// select_iter(r): first item is (r, select(r)); the following item has rank r+1.
pub fn select_iter(l: usize, long: bool) {
    set_regime(long);
    let (raw, b) = any_bits(l);
    let mut bv = BitVector::from(raw);
    bv.enable_select();
    let ones = b.ones();
    let r = sym::usize();
    let mut it = bv.select_iter(r);
    match it.next() {
        None => assert!(r >= ones),
        Some((rr, p)) => {
            assert!(r < ones && rr == r && b.is_select(r, p));
            assert!(it.len() == ones - r - 1);
            match it.next() {
                None => assert!(r + 1 == ones),
                Some((r2, p2)) => assert!(r2 == r + 1 && b.is_select(r2, p2)),
            }
        }
    }
}

pub fn select_zero(l: usize, long: bool) {
    set_regime(long);
    let (raw, b) = any_bits(l);
    let mut bv = BitVector::from(raw);
    bv.enable_select_zero();
    assert!(bv.supports_select_zero());
    let zeros = l - b.ones();
    let r = sym::usize();
    match bv.select_zero(r) {
        None => assert!(r >= zeros),
        Some(p) => { assert!(r < zeros); assert!(b.is_select_zero(r, p)); }
    }
}

pub fn select_zero_iter(l: usize, long: bool) {
    set_regime(long);
    let (raw, b) = any_bits(l);
    let mut bv = BitVector::from(raw);
    bv.enable_select_zero();
    let zeros = l - b.ones();
    let r = sym::usize();
    let mut it = bv.select_zero_iter(r);
    match it.next() {
        None => assert!(r >= zeros),
        Some((rr, p)) => {
            assert!(r < zeros && rr == r && b.is_select_zero(r, p));
            assert!(it.len() == zeros - r - 1);
            match it.next() {
                None => assert!(r + 1 == zeros),
                Some((r2, p2)) => assert!(r2 == r + 1 && b.is_select_zero(r2, p2)),
            }
        }
    }
}

/// predecessor / successor: nearest set bit at-or-before / at-or-after, with its rank.
/// `v` ranges over the values for which the answer is defined by the documentation
/// (any usize; v >= len behaves as documented — see C09 for the extreme values).
pub fn pred_succ(l: usize, long: bool) {
    set_regime(long);
    let (raw, b) = any_bits(l);
    let mut bv = BitVector::from(raw);
    bv.enable_pred_succ();
    assert!(bv.supports_pred_succ());
    let v = sym::usize();
    sym::assume(v < usize::MAX); // predecessor(usize::MAX): C09
    match bv.successor(v).next() {
        None => assert!(b.rank(v) == b.ones()),                     // no set bit at or after v
        Some((r, p)) => { assert!(p >= v && b.is_select(r, p) && r == b.rank(v)); }
    }
    match bv.predecessor(v).next() {
        None => assert!(b.rank(v + 1) == 0),                          // no set bit at or before v
        Some((r, p)) => { assert!(p <= v && b.is_select(r, p) && r + 1 == b.rank(v + 1)); }
    }
}
