//! C13 — memory-mapped views expose exactly the serialized content at any offset.
//!
//! The file is the concatenation of 2–3 structures serialized by the library itself
//! (`Serialize::serialize` into a byte buffer, concrete shapes, symbolic content). The bytes
//! become the content of the model file (Kani: `stubs_mmap` + `models/mmap_model.c`; native
//! replay: a real temp file, real `mmap`), `MemoryMap::new` maps it, and every mapped type is
//! compared with what `load` returns for the same bytes.
use crate::sym;
use crate::c18::{Env, keep};
use simple_sds::serialize::{Serialize, MemoryMap, MappingMode, MemoryMapped, MappedSlice, MappedBytes, MappedStr, MappedOption};
use simple_sds::raw_vector::{RawVector, RawVectorMapper, AccessRaw};
use simple_sds::int_vector::{IntVector, IntVectorMapper};
use simple_sds::ops::{Vector, Access, Push};

// Every drawn value is `keep`-ed (see c18::keep): a counterexample must carry ALL inputs in order.
fn d64() -> u64 { let v = sym::u64(); keep(v); v }
fn dus() -> usize { let v = sym::usize(); keep(v as u64); v }
fn d8() -> u8 { let v = sym::u8(); keep(v as u64); v }

pub const BUFW: usize = 24; // words; three structures of at most 7 words each
pub const BUF: usize = 8 * BUFW;

//-----------------------------------------------------------------------------
// One serializable type + its mapped view, at a concrete shape.

pub trait Case {
    type Val: Serialize;
    type View<'a>: MemoryMapped<'a>;
    /// A value of the concrete shape with symbolic content.
    fn make() -> Self::Val;
    /// The view exposes exactly the content of `val` (lengths, every element at a symbolic index).
    fn same<'a>(view: &Self::View<'a>, val: &Self::Val);
}

/// `Vec<u64>` of `N` items / `MappedSlice<u64>`.
pub struct VecU64<const N: usize>;
impl<const N: usize> Case for VecU64<N> {
    type Val = Vec<u64>;
    type View<'a> = MappedSlice<'a, u64>;
    fn make() -> Vec<u64> {
        let mut v = Vec::with_capacity(N);
        let mut i = 0;
        while i < N { v.push(d64()); i += 1; }
        v
    }
    fn same<'a>(view: &MappedSlice<'a, u64>, val: &Vec<u64>) {
        assert!(view.len() == val.len());
        assert!(view.is_empty() == val.is_empty());
        let s: &[u64] = view.as_ref();
        assert!(s.len() == val.len());
        let i = dus();
        if i < val.len() { assert!(view[i] == val[i]); assert!(s[i] == val[i]); }
    }
}

/// `Vec<(u64, u64)>` of `N` items / `MappedSlice<(u64, u64)>`.
pub struct VecPair<const N: usize>;
impl<const N: usize> Case for VecPair<N> {
    type Val = Vec<(u64, u64)>;
    type View<'a> = MappedSlice<'a, (u64, u64)>;
    fn make() -> Vec<(u64, u64)> {
        let mut v = Vec::with_capacity(N);
        let mut i = 0;
        while i < N { v.push((d64(), d64())); i += 1; }
        v
    }
    fn same<'a>(view: &MappedSlice<'a, (u64, u64)>, val: &Vec<(u64, u64)>) {
        assert!(view.len() == val.len());
        assert!(view.is_empty() == val.is_empty());
        let i = dus();
        if i < val.len() { assert!(view[i].0 == val[i].0 && view[i].1 == val[i].1); }
    }
}

/// `Vec<u8>` of `N` bytes / `MappedBytes`.
pub struct Bytes<const N: usize>;
impl<const N: usize> Case for Bytes<N> {
    type Val = Vec<u8>;
    type View<'a> = MappedBytes<'a>;
    fn make() -> Vec<u8> {
        let mut v = Vec::with_capacity(N);
        let mut i = 0;
        while i < N { v.push(d8()); i += 1; }
        v
    }
    fn same<'a>(view: &MappedBytes<'a>, val: &Vec<u8>) {
        assert!(view.len() == val.len());
        assert!(view.is_empty() == val.is_empty());
        let s: &[u8] = view.as_ref();
        assert!(s.len() == val.len());
        let i = dus();
        if i < val.len() { assert!(view[i] == val[i]); }
    }
}

/// ASCII `String` of `N` bytes / `MappedStr` (stub set `utf8`).
pub struct Str<const N: usize>;
impl<const N: usize> Case for Str<N> {
    type Val = String;
    type View<'a> = MappedStr<'a>;
    fn make() -> String {
        let mut v = Vec::with_capacity(N);
        let mut i = 0;
        while i < N { let c = d8(); sym::assume(c < 128); v.push(c); i += 1; }
        unsafe { String::from_utf8_unchecked(v) }
    }
    fn same<'a>(view: &MappedStr<'a>, val: &String) {
        assert!(view.len() == val.len());
        assert!(view.is_empty() == val.is_empty());
        let s: &str = view.as_ref();
        assert!(s.len() == val.len());
        let i = dus();
        if i < val.len() { assert!(s.as_bytes()[i] == val.as_bytes()[i]); }
    }
}

/// `Option<Vec<u64>>`, present with `N` items or absent / `MappedOption<MappedSlice<u64>>`.
pub struct Opt<const SOME: bool, const N: usize>;
impl<const SOME: bool, const N: usize> Case for Opt<SOME, N> {
    type Val = Option<Vec<u64>>;
    type View<'a> = MappedOption<'a, MappedSlice<'a, u64>>;
    fn make() -> Option<Vec<u64>> {
        if SOME { Some(VecU64::<N>::make()) } else { None }
    }
    fn same<'a>(view: &MappedOption<'a, MappedSlice<'a, u64>>, val: &Option<Vec<u64>>) {
        assert!(view.is_some() == val.is_some());
        assert!(view.is_none() == val.is_none());
        match (view.as_ref(), val) {
            (Some(a), Some(b)) => { VecU64::<N>::same(a, b); VecU64::<N>::same(view.unwrap(), b); }
            (None, None) => {}
            _ => assert!(false),
        }
    }
}

/// `RawVector` of `L` bits / `RawVectorMapper`.
pub struct Raw<const L: usize>;
impl<const L: usize> Case for Raw<L> {
    type Val = RawVector;
    type View<'a> = RawVectorMapper<'a>;
    fn make() -> RawVector {
        let mut v = RawVector::with_len(L, false);
        let mut k = 0;
        while k * 64 < L {
            let width = if L - k * 64 >= 64 { 64 } else { L - k * 64 };
            unsafe { v.set_int(k * 64, d64(), width); }
            k += 1;
        }
        v
    }
    fn same<'a>(view: &RawVectorMapper<'a>, val: &RawVector) {
        assert!(view.len() == val.len());
        assert!(view.is_empty() == val.is_empty());
        assert!(view.count_ones() == val.count_ones());
        assert!(!view.is_mutable());
        let words = (val.len() + 63) / 64;
        let inner: &MappedSlice<'a, u64> = view.as_ref();
        assert!(inner.len() == words);
        let i = dus();
        if i < val.len() { assert!(view.bit(i) == val.bit(i)); }
        let k = dus();
        if k < words {
            assert!(view.word(k) == val.word(k));
            assert!(unsafe { view.word_unchecked(k) } == val.word(k));
        }
    }
}

/// `RawVector` of `L` bits / `RawVectorMapper`: as `Raw<L>` plus `int(offset, width)` for every
/// in-range offset and width 0..=64.
pub struct RawI<const L: usize>;
impl<const L: usize> Case for RawI<L> {
    type Val = RawVector;
    type View<'a> = RawVectorMapper<'a>;
    fn make() -> RawVector { Raw::<L>::make() }
    fn same<'a>(view: &RawVectorMapper<'a>, val: &RawVector) {
        Raw::<L>::same(view, val);
        let width = dus();
        sym::assume(width <= 64);
        let off = dus();
        if off <= val.len() && width <= val.len() - off {
            assert!(unsafe { view.int(off, width) } == unsafe { val.int(off, width) });
        }
    }
}

/// `IntVector` of `N` items of width `W` / `IntVectorMapper`.
pub struct Int<const W: usize, const N: usize>;
impl<const W: usize, const N: usize> Case for Int<W, N> {
    type Val = IntVector;
    type View<'a> = IntVectorMapper<'a>;
    fn make() -> IntVector {
        let mut v = match IntVector::with_capacity(N + 3, W) { Ok(v) => v, Err(_) => { assert!(false); unreachable!() } };
        let mut i = 0;
        while i < N { v.push(d64()); i += 1; }
        v
    }
    fn same<'a>(view: &IntVectorMapper<'a>, val: &IntVector) {
        assert!(view.len() == val.len());
        assert!(view.width() == val.width());
        assert!(view.is_empty() == val.is_empty());
        let raw: &RawVectorMapper<'a> = view.as_ref();
        assert!(raw.len() == val.len() * val.width());
        let i = dus();
        if i < val.len() { assert!(view.get(i) == val.get(i)); }
    }
}

//-----------------------------------------------------------------------------
// The file.

pub struct FileImage { pub bytes: [u8; BUF], pub words: [u64; BUFW], pub total: usize }

fn image(bytes: [u8; BUF], used: usize) -> FileImage {
    assert!(used % 8 == 0 && used <= BUF);
    let mut words = [0u64; BUFW];
    let mut k = 0;
    while k < BUFW {
        let mut w = [0u8; 8];
        let mut b = 0;
        while b < 8 { w[b] = bytes[8 * k + b]; b += 1; }
        words[k] = u64::from_le_bytes(w);
        k += 1;
    }
    FileImage { bytes, words, total: used / 8 }
}

fn put<T: Serialize>(x: &T, buf: &mut [u8; BUF], at: usize) -> usize {
    let size = x.size_in_bytes();
    assert!(at + size <= BUF);
    let left = {
        let mut w: &mut [u8] = &mut buf[at..];
        match x.serialize(&mut w) { Ok(()) => {} Err(e) => { std::mem::forget(e); assert!(false); } }
        w.len()
    };
    assert!(BUF - left == at + size);
    at + size
}

fn get<T: Serialize>(f: &FileImage, off: usize) -> T {
    let mut r: &[u8] = &f.bytes[8 * off .. 8 * f.total];
    match T::load(&mut r) {
        Ok(v) => v,
        Err(e) => { std::mem::forget(e); assert!(false); unreachable!() }
    }
}

/// Maps the first `len_words` words of the image read-only.
fn map_of(f: &FileImage, len_words: usize) -> (Env, MemoryMap) {
    let e = Env::from_words(&f.words[..f.total], len_words);
    let map = match MemoryMap::new(e.path(), MappingMode::ReadOnly) {
        Ok(m) => m,
        Err(err) => { std::mem::forget(err); assert!(false); unreachable!() }
    };
    assert!(map.len() == len_words);
    (e, map)
}

/// The view of type `A` at structure start `off`: accepted, equal to the reference value,
/// `map_offset() == off`, `map_len()` == the structure's size; returns the offset after it.
/// Reference value: with `load` what `A::Val::load` returns for the bytes at `off` (the literal
/// statement of C13), otherwise the value `orig` that was serialized there (C06 proves
/// `load(serialize(x)) == x` for these types and shapes; `load` costs 2-4x under CBMC).
fn at<'m, A: Case>(map: &'m MemoryMap, f: &FileImage, off: usize, orig: &A::Val, load: bool) -> usize {
    let view = match <A::View<'m> as MemoryMapped<'m>>::new(map, off) {
        Ok(v) => v,
        Err(err) => { std::mem::forget(err); assert!(false); unreachable!() }
    };
    if load {
        let loaded: A::Val = get(f, off);
        A::same(&view, &loaded);
        assert!(loaded.size_in_elements() == orig.size_in_elements());
    } else {
        A::same(&view, orig);
    }
    assert!(view.map_offset() == off);
    assert!(view.map_len() == orig.size_in_elements());
    view.map_offset() + view.map_len()
}

/// A | B | C in one file: every view at its start equals `load`, and the views tile the file.
pub fn tile3<A: Case, B: Case, C: Case>(load: bool) {
    let (a, b, c) = (A::make(), B::make(), C::make());
    let mut bytes = [0u8; BUF];
    let e1 = put(&a, &mut bytes, 0);
    let e2 = put(&b, &mut bytes, e1);
    let e3 = put(&c, &mut bytes, e2);
    let f = image(bytes, e3);
    let (_e, map) = map_of(&f, f.total);
    // structure starts as the serializer placed them (concrete); each view must end at the next one
    let (s1, s2, s3) = (e1 / 8, e2 / 8, e3 / 8);
    assert!(s1 == a.size_in_elements() && s2 == s1 + b.size_in_elements() && s3 == s2 + c.size_in_elements());
    let o1 = at::<A>(&map, &f, 0, &a, load);
    assert!(o1 == s1);
    let o2 = at::<B>(&map, &f, s1, &b, load);
    assert!(o2 == s2);
    let o3 = at::<C>(&map, &f, s2, &c, load);
    assert!(o3 == s3 && o3 == map.len());
    drop(map);
}

/// A | B in one file.
pub fn tile2<A: Case, B: Case>(load: bool) {
    let (a, b) = (A::make(), B::make());
    let mut bytes = [0u8; BUF];
    let e1 = put(&a, &mut bytes, 0);
    let e2 = put(&b, &mut bytes, e1);
    let f = image(bytes, e2);
    let (_e, map) = map_of(&f, f.total);
    let (s1, s2) = (e1 / 8, e2 / 8);
    assert!(s1 == a.size_in_elements() && s2 == s1 + b.size_in_elements());
    let o1 = at::<A>(&map, &f, 0, &a, load);
    assert!(o1 == s1);
    let o2 = at::<B>(&map, &f, s1, &b, load);
    assert!(o2 == s2 && o2 == map.len());
    drop(map);
}

/// File = A | B. A view of type `A` requested at ANY offset at or beyond the end of the file
/// (all usize) is refused with an error; no panic.
pub fn bad_offset<A: Case, B: Case>() {
    let (a, b) = (A::make(), B::make());
    let mut bytes = [0u8; BUF];
    let e1 = put(&a, &mut bytes, 0);
    let e2 = put(&b, &mut bytes, e1);
    let f = image(bytes, e2);
    let (_e, map) = map_of(&f, f.total);
    let o = dus();
    sym::assume(o >= map.len());
    sym::cover(o == map.len());
    sym::cover(o == usize::MAX);
    let r = <A::View<'_> as MemoryMapped<'_>>::new(&map, o);
    assert!(r.is_err());
    std::mem::forget(r);
    drop(map);
}

/// File = A | B cut at every 8-byte boundary `t` in `1..total` (symbolic): a structure whose
/// declared extent runs past the cut is refused with an error (no panic); a structure that is
/// still complete is accepted and unchanged. (t = 0 is the empty file: C18.)
pub fn truncated<A: Case, B: Case>() {
    let (a, b) = (A::make(), B::make());
    let mut bytes = [0u8; BUF];
    let e1 = put(&a, &mut bytes, 0);
    let e2 = put(&b, &mut bytes, e1);
    let f = image(bytes, e2);
    let sa = a.size_in_elements();
    let t = dus();
    sym::assume(t >= 1 && t < f.total);
    let (_e, map) = map_of(&f, t);
    if sa <= t {
        let o1 = at::<A>(&map, &f, 0, &a, false);
        assert!(o1 == sa);
    } else {
        let r = <A::View<'_> as MemoryMapped<'_>>::new(&map, 0);
        assert!(r.is_err());
        std::mem::forget(r);
    }
    // B starts at sa and ends at total > t: never complete
    let r = <B::View<'_> as MemoryMapped<'_>>::new(&map, sa);
    assert!(r.is_err());
    std::mem::forget(r);
    sym::cover(sa <= t);
    if sa > 1 { sym::cover(sa > t); }
    drop(map);
}
