//! C06 — serialization round trip is the identity, sizes are exact, streams concatenate.
use crate::sym;
use crate::c05::{any_raw, any_int};
use simple_sds::serialize::Serialize;
use simple_sds::raw_vector::RawVector;
use simple_sds::int_vector::IntVector;
use simple_sds::ops::{Vector, Access};

pub const BUF: usize = 256;

/// serialize -> exactly size_in_bytes bytes -> load consumes exactly those -> equal value.
/// Returns the loaded copy for type-specific query checks.
pub fn roundtrip<T: Serialize + PartialEq>(x: &T) -> T {
    let mut buf = [0xA5u8; BUF];
    let elems = x.size_in_elements();
    let size = x.size_in_bytes();
    assert!(size == 8 * elems);
    assert!(size <= BUF);
    let left = { let mut w: &mut [u8] = &mut buf; x.serialize(&mut w).unwrap(); w.len() };
    assert!(BUF - left == size);
    // header and body written separately give the same bytes
    let mut buf2 = [0xA5u8; BUF];
    let left2 = { let mut w: &mut [u8] = &mut buf2; x.serialize_header(&mut w).unwrap(); x.serialize_body(&mut w).unwrap(); w.len() };
    assert!(left2 == left);
    let mut r: &[u8] = &buf[..];
    let y = T::load(&mut r).unwrap();
    assert!(BUF - r.len() == size);
    assert!(y == *x);
    assert!(y.size_in_elements() == elems);
    y
}

/// Two values back to back in one stream load back in sequence.
pub fn concat<A: Serialize + PartialEq, B: Serialize + PartialEq>(a: &A, b: &B) {
    let mut buf = [0x5Au8; BUF];
    let total = a.size_in_bytes() + b.size_in_bytes();
    assert!(total <= BUF);
    let left = { let mut w: &mut [u8] = &mut buf; a.serialize(&mut w).unwrap(); b.serialize(&mut w).unwrap(); w.len() };
    assert!(BUF - left == total);
    let mut r: &[u8] = &buf[..total];
    let a2 = A::load(&mut r).unwrap();
    assert!(r.len() == b.size_in_bytes());
    let b2 = B::load(&mut r).unwrap();
    assert!(r.len() == 0);
    assert!(a2 == *a && b2 == *b);
}

pub fn scalars() {
    let a = sym::u64(); let b = sym::usize(); let c = (sym::u64(), sym::u64());
    assert!(roundtrip(&a) == a && a.size_in_elements() == 1);
    assert!(roundtrip(&b) == b && b.size_in_elements() == 1);
    assert!(roundtrip(&c) == c && c.size_in_elements() == 2);
    concat(&c, &b);
}

fn sym_vec_u64(n: usize) -> Vec<u64> { let mut v = Vec::with_capacity(n); let mut i = 0; while i < n { v.push(sym::u64()); i += 1; } v }
fn sym_vec_pair(n: usize) -> Vec<(u64, u64)> { let mut v = Vec::with_capacity(n); let mut i = 0; while i < n { v.push((sym::u64(), sym::u64())); i += 1; } v }
fn sym_bytes(n: usize) -> Vec<u8> { let mut v = Vec::with_capacity(n); let mut i = 0; while i < n { v.push(sym::u8()); i += 1; } v }
fn sym_ascii(n: usize) -> String {
    let mut v = Vec::with_capacity(n); let mut i = 0;
    while i < n { let c = sym::u8(); sym::assume(c < 128); v.push(c); i += 1; }
    unsafe { String::from_utf8_unchecked(v) }
}

pub fn vec_u64(n: usize) {
    let v = sym_vec_u64(n);
    assert!(v.size_in_elements() == 1 + n);
    let y = roundtrip(&v);
    assert!(y.len() == n);
}
pub fn vec_pair(n: usize) {
    let v = sym_vec_pair(n);
    assert!(v.size_in_elements() == 1 + 2 * n);
    roundtrip(&v);
}
pub fn bytes(n: usize) {
    let v = sym_bytes(n);
    assert!(v.size_in_elements() == 1 + (n + 7) / 8);
    roundtrip(&v);
}
pub fn string(n: usize) {
    let s = sym_ascii(n);
    assert!(s.size_in_elements() == 1 + (n + 7) / 8);
    let y = roundtrip(&s);
    assert!(y.len() == n);
}
pub fn option_vec(n: usize) {
    let some: Option<Vec<u64>> = Some(sym_vec_u64(n));
    let none: Option<Vec<u64>> = None;
    assert!(some.size_in_elements() == 2 + n);
    assert!(none.size_in_elements() == 1);
    roundtrip(&some);
    roundtrip(&none);
    concat(&none, &some);
    let nested: Option<Option<Vec<u64>>> = Some(Some(sym_vec_u64(n)));
    assert!(nested.size_in_elements() == 3 + n);
    roundtrip(&nested);
    let nested_none: Option<Option<Vec<u64>>> = Some(None);
    assert!(nested_none.size_in_elements() == 2);
    roundtrip(&nested_none);
}
pub fn raw(l: usize) {
    let (v, _) = any_raw(l);
    assert!(v.size_in_elements() == 2 + (l + 63) / 64);
    assert!(RawVector::size_by_params(l) == v.size_in_elements());
    let y = roundtrip(&v);
    assert!(y.len() == l);
    let o = Some(v);
    roundtrip(&o);
}
pub fn int(w: usize, n: usize) {
    let (v, m) = any_int(w, n);
    assert!(v.size_in_elements() == 4 + (n * w + 63) / 64);
    assert!(IntVector::size_by_params(n, w) == v.size_in_elements());
    let y = roundtrip(&v);
    assert!(y.len() == n && y.width() == w);
    let i = sym::usize();
    if i < n { assert!(y.get(i) == m[i]); }
}
pub fn concat_mixed(l: usize, w: usize, n: usize, k: usize) {
    let (r, _) = any_raw(l);
    let (v, _) = any_int(w, n);
    let b = sym_bytes(k);
    concat(&r, &v);
    concat(&b, &r);
    concat(&v, &b);
}

/// size_by_params as pure arithmetic, all arguments in the documented domain.
pub fn size_by_params() {
    let c = sym::usize();
    sym::assume(c <= usize::MAX - 63);
    assert!(RawVector::size_by_params(c) == 2 + c / 64 + (if c % 64 != 0 { 1 } else { 0 }));
    let n = sym::usize(); let w = sym::usize_in(1, 64);
    sym::assume(n < (1usize << 57));
    let bits = n * w;
    assert!(IntVector::size_by_params(n, w) == 4 + bits / 64 + (if bits % 64 != 0 { 1 } else { 0 }));
}

// ---- composite structures (built by the real builder / assembled from parts), thorough tier

pub fn sparse(n: usize, m: usize, w: usize) {
    let r = crate::c02::any_positions(n, m, false);
    let v = crate::c02::build(&r, w, false);
    let y = roundtrip(&v);
    use simple_sds::ops::{BitVec, Select};
    assert!(y.len() == n && y.count_ones() == m);
    let i = sym::usize();
    match y.select(i) { None => assert!(i >= m), Some(p) => assert!(p == r.p[i]) }
}

pub fn wavelet_matrix(n: usize, maxv: u64, fw: usize) {
    let (wm, it) = crate::c04::load_wm(n, maxv, fw);
    let y = roundtrip(&wm);
    assert!(y.len() == n && y.width() == it.width);
    let i = sym::usize();
    if i < n { assert!(y.get(i) == it.v[i]); }
}

pub fn rl(units: &[(usize, usize)], sw: usize) {
    let (v, runs) = crate::c03::any_rl(units, sw, true);
    let y = roundtrip(&v);
    use simple_sds::ops::BitVec;
    assert!(y.len() == runs.len && y.count_ones() == runs.ones);
}
