//! Native helper: prints the low-part width the real SparseBuilder parameter rule picks.
//! usage: sparams <universe> <ones> <multiset 0|1> ...   (triples) -> one width per line
#[cfg(kani)]
fn main() {}
#[cfg(not(kani))]
fn main() {
    use simple_sds::sparse_vector::{SparseBuilder, SparseVector};
    use simple_sds::serialize::Serialize;
    use std::convert::TryFrom;
    let a: Vec<usize> = std::env::args().skip(1).map(|s| s.parse::<usize>().unwrap()).collect();
    for t in a.chunks(3) {
        let (n, m, multi) = (t[0], t[1], t[2] != 0);
        let mut b = if multi { SparseBuilder::multiset(n, m) } else { SparseBuilder::new(n, m).unwrap() };
        for i in 0..m { b.set(if multi { 0 } else { i }); }
        let v = SparseVector::try_from(b).unwrap();
        let mut bytes: Vec<u8> = Vec::new();
        v.serialize(&mut bytes).unwrap();
        let e: Vec<u64> = bytes.chunks(8).map(|c| u64::from_le_bytes([c[0], c[1], c[2], c[3], c[4], c[5], c[6], c[7]])).collect();
        let mut found = 0usize;
        for w in 1..=64usize {
            let words = (m * w + 63) / 64;
            if e.len() < 4 + words { continue; }
            let pos = e.len() - 4 - words;
            if e[pos] == m as u64 && e[pos + 1] == w as u64 && e[pos + 2] == (m * w) as u64 && e[pos + 3] == words as u64 {
                found = w;
                break;
            }
        }
        println!("{}", found);
    }
}
