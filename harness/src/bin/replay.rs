//! Native replay of a solver counterexample: `replay <instance> <v0> <v1> ...`
//! exit 0 = harness ran to the end (NOT reproduced), 101 = panic (reproduced),
//! 3 = the recorded values do not satisfy the harness assumptions / ran out.
#[cfg(kani)]
fn main() {}
#[cfg(not(kani))]
fn main() {
    let args: Vec<String> = std::env::args().collect();
    let name = &args[1];
    let vals: Vec<u64> = args[2..].iter().map(|s| s.parse::<u64>().expect("u64")).collect();
    sds_harness::sym::load(&vals);
    if !sds_harness::run_instance(name) {
        eprintln!("REPLAY-UNKNOWN-INSTANCE {}", name);
        std::process::exit(4);
    }
    println!("REPLAY-COMPLETED-WITHOUT-FAILURE");
}
