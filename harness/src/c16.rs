//! C16 — builders: an invalid step is refused without side effects, accepted steps are
//! reflected exactly, conversion succeeds exactly when allowed and yields the accepted positions.
use crate::sym;
use simple_sds::sparse_vector::{SparseVector, SparseBuilder};
use simple_sds::rl_vector::{RLVector, RLBuilder};
use simple_sds::ops::{BitVec, Rank, Select};
use std::convert::TryFrom;

#[cfg(kani)]
fn sparse_env(w: usize, scan: usize) { crate::stubs::set_sparse_width(w); crate::stubs_bv::set_scan(scan); }
#[cfg(not(kani))]
fn sparse_env(_w: usize, _scan: usize) {}

#[derive(Clone, Copy, PartialEq)]
struct Obs { len: usize, next: usize, full: bool, empty: bool, universe: usize, cap: usize, multi: bool }
fn obs(b: &SparseBuilder) -> Obs { Obs { len: b.len(), next: b.next_index(), full: b.is_full(), empty: b.is_empty(), universe: b.universe(), cap: b.capacity(), multi: b.is_multiset() } }

/// SparseBuilder: `prefix` accepted calls, then one arbitrary try_set(x) (x over all usize),
/// then the builder is filled up and converted.
pub fn sparse_builder(universe: usize, capacity: usize, w: usize, multiset: bool, prefix: usize) {
    let buckets = (universe >> w) + (if universe & ((1usize << w) - 1) != 0 { 1 } else { 0 });
    sparse_env(w, capacity + buckets);
    let mut b = if multiset { SparseBuilder::multiset(universe, capacity) } else { SparseBuilder::new(universe, capacity).unwrap() };
    let inc = if multiset { 0 } else { 1 };
    let o0 = obs(&b);
    assert!(o0.len == 0 && o0.next == 0 && o0.empty && o0.universe == universe && o0.cap == capacity && o0.multi == multiset && o0.full == (capacity == 0));
    let mut acc = [0usize; 8]; let mut na = 0usize;
    let mut k = 0;
    while k < prefix {
        let x = sym::usize();
        sym::assume(x < universe && x >= b.next_index());
        assert!(b.try_set(x).is_ok());
        acc[na] = x; na += 1;
        k += 1;
    }
    // one arbitrary step
    let before = obs(&b);
    let x = sym::usize();
    let expect_ok = !before.full && x >= before.next && x < universe;
    let res = b.try_set(x);
    assert!(res.is_ok() == expect_ok);
    let after = obs(&b);
    if expect_ok {
        acc[na] = x; na += 1;
        assert!(after.len == before.len + 1 && after.next == x + inc && !after.empty && after.full == (after.len == capacity));
        assert!(after.universe == universe && after.cap == capacity && after.multi == multiset);
    } else {
        assert!(after == before);
    }
    // a builder that is not full does not convert
    if !after.full {
        assert!(SparseVector::try_from(b.clone()).is_err());
    }
    // fill up with accepted calls and convert: the set bits are exactly the accepted positions
    let mut k = 0;
    while k < 8 {
        if !b.is_full() {
            let y = sym::usize();
            sym::assume(y < universe && y >= b.next_index());
            b.set(y);
            acc[na] = y; na += 1;
        }
        k += 1;
    }
    assert!(b.is_full() && na == capacity);
    let v = SparseVector::try_from(b).unwrap();
    assert!(v.len() == universe && v.count_ones() == capacity);
    let i = sym::usize();
    match v.select(i) { None => assert!(i >= capacity), Some(p) => assert!(i < capacity && p == acc[i]) }
}

/// SparseBuilder::new rejects ones > universe; Extend = repeated set.
pub fn sparse_extend(universe: usize, capacity: usize, w: usize) {
    let buckets = (universe >> w) + (if universe & ((1usize << w) - 1) != 0 { 1 } else { 0 });
    sparse_env(w, capacity + buckets);
    let mut b = SparseBuilder::new(universe, capacity).unwrap();
    let mut xs = [0usize; 8];
    let mut k = 0;
    while k < capacity { xs[k] = sym::usize(); sym::assume(xs[k] < universe && (k == 0 || xs[k] > xs[k - 1])); k += 1; }
    b.extend(xs[..capacity].iter().copied());
    assert!(b.is_full() && b.len() == capacity);
    let v = SparseVector::try_from(b).unwrap();
    let i = sym::usize();
    match v.select(i) { None => assert!(i >= capacity), Some(p) => assert!(p == xs[i]) }
}

// ---------------------------------------------------------------------------------------------

const MK: usize = 4;
#[derive(Clone, Copy)]
struct RlModel { len: usize, ones: usize, r: usize, s: [usize; MK], l: [usize; MK] }

impl RlModel {
    fn rank(&self, i: usize) -> usize {
        let mut k = 0; let mut res = 0usize;
        while k < MK { if k < self.r && i > self.s[k] { let d = i - self.s[k]; res += if d < self.l[k] { d } else { self.l[k] }; } k += 1; }
        res
    }
    fn get(&self, i: usize) -> bool {
        let mut k = 0; let mut res = false;
        while k < MK { if k < self.r && i >= self.s[k] && i - self.s[k] < self.l[k] { res = true; } k += 1; }
        res
    }
}

/// RLBuilder: `steps` arbitrary calls (try_set(start, len) or set_len(n), arguments over all
/// usize below `bound`), observables after every call, then conversion and queries.
/// `bound` = usize::MAX means unrestricted.
pub fn rl_builder(steps: usize, bound: usize, convert: bool) { rl_builder_kinds(steps, bound, convert, &[]) }

/// Same with the kind of each call fixed by `kinds` (true = try_set, false = set_len) when given.
pub fn rl_builder_kinds(steps: usize, bound: usize, convert: bool, kinds: &[bool]) {
    let mut b = RLBuilder::new();
    let mut m = RlModel { len: 0, ones: 0, r: 0, s: [0; MK], l: [0; MK] };
    assert!(b.len() == 0 && b.count_ones() == 0 && b.is_empty());
    let mut k = 0;
    while k < steps {
        let kind = if k < kinds.len() { kinds[k] } else { sym::bool() };
        if kind {
            let start = sym::usize(); let len = sym::usize();
            sym::assume(start <= bound && len <= bound);
            let ok = start >= m.len && usize::MAX - len >= start;
            let res = b.try_set(start, len);
            assert!(res.is_ok() == ok);
            std::mem::forget(res);
            if ok && len > 0 {
                if m.r > 0 && m.s[m.r - 1] + m.l[m.r - 1] == start { m.l[m.r - 1] += len; }
                else { m.s[m.r] = start; m.l[m.r] = len; m.r += 1; }
                m.len = start + len; m.ones += len;
            }
        } else {
            let n = sym::usize();
            sym::assume(n <= bound);
            b.set_len(n);
            if n > m.len { m.len = n; }
        }
        assert!(b.len() == m.len && b.count_ones() == m.ones && b.count_zeros() == m.len - m.ones && b.is_empty() == (m.len == 0));
        // encoding invariant (through the cfg(simple_sds_verif) hook): the pending run is exactly the
        // last accepted run, it starts at or after the encoded tail, and ends at the current length
        let (tail, rs, rl) = b.verif_state();
        // (natively the API-level comparison after conversion below decides; it is cheap there)
        if !cfg!(kani) {}
        else if m.r == 0 { assert!(rl == 0 && tail == 0); }
        else {
            let (ls, ll) = (m.s[m.r - 1], m.l[m.r - 1]);
            if rl > 0 { assert!(rs == ls && rl == ll && tail <= rs && (m.r < 2 || tail == m.s[m.r - 2] + m.l[m.r - 2])); }
            else {
                assert!(tail == ls + ll);
                // the pending run may only have been closed by a set_len() that grew the vector: while the
                // last run ends at the current length it must stay open, or an adjacent run accepted next
                // could not be merged with it (set_len(n <= len) is documented to have no effect)
                assert!(m.len > ls + ll);
            }
        }
        k += 1;
    }
    // native replay only: make a closed-too-early pending run visible through the public API by
    // appending one adjacent bit, which must extend the last run (the solver decides on the
    // invariant above; this is how its counterexample is demonstrated on the real code)
    if cfg!(not(kani)) && m.r > 0 && m.len == m.s[m.r - 1] + m.l[m.r - 1] && m.len < usize::MAX {
        let res = b.try_set(m.len, 1);
        assert!(res.is_ok());
        m.l[m.r - 1] += 1; m.len += 1; m.ones += 1;
    }
    if convert || cfg!(not(kani)) {
        // the converted vector holds exactly the accepted (merged) runs: compared through the run
        // iterator, which decodes the blocks sequentially (rank/select on such vectors: C03)
        let v = RLVector::from(b);
        assert!(v.len() == m.len && v.count_ones() == m.ones);
        let mut it = v.run_iter();
        let mut k = 0;
        while k < MK { if k < m.r { assert!(it.next() == Some((m.s[k], m.l[k]))); } k += 1; }
        assert!(it.next().is_none());
    }
}
