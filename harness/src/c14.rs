//! C14 (load half) — every strict prefix of a serialization is rejected with Err (no panic,
//! no structure); skip_option on a stream cut inside the optional body returns Err.
use crate::sym;
use crate::c05::{any_raw, any_int};
use crate::c01::any_bits;
use simple_sds::serialize::{self, Serialize};
use simple_sds::raw_vector::RawVector;
use simple_sds::int_vector::IntVector;
use simple_sds::bit_vector::BitVector;
use simple_sds::ops::{Rank, Select, SelectZero};

pub const BUF: usize = 256;

/// Serialize `x`, cut the stream at a symbolic byte k < size, load must return Err.
pub fn truncated<T: Serialize>(x: &T) {
    let mut buf = [0u8; BUF];
    let size = x.size_in_bytes();
    assert!(size <= BUF && size > 0);
    { let mut w: &mut [u8] = &mut buf; x.serialize(&mut w).unwrap(); }
    let k = sym::usize();
    sym::assume(k < size);
    let mut r: &[u8] = &buf[..k];
    let res = T::load(&mut r);
    assert!(res.is_err());
    std::mem::forget(res);
}

fn sym_vec_u64(n: usize) -> Vec<u64> { let mut v = Vec::with_capacity(n); let mut i = 0; while i < n { v.push(sym::u64()); i += 1; } v }
fn sym_bytes(n: usize) -> Vec<u8> { let mut v = Vec::with_capacity(n); let mut i = 0; while i < n { v.push(sym::u8()); i += 1; } v }

pub fn scalars() { let a = sym::u64(); truncated(&a); let c = (sym::u64(), sym::u64()); truncated(&c); }
pub fn vec_u64(n: usize) { truncated(&sym_vec_u64(n)); }
pub fn vec_pair(n: usize) { let mut v: Vec<(u64, u64)> = Vec::with_capacity(n); let mut i = 0; while i < n { v.push((sym::u64(), sym::u64())); i += 1; } truncated(&v); }
pub fn bytes(n: usize) { truncated(&sym_bytes(n)); }
pub fn string(n: usize) {
    let mut v = Vec::with_capacity(n); let mut i = 0;
    while i < n { let c = sym::u8(); sym::assume(c < 128); v.push(c); i += 1; }
    truncated(&unsafe { String::from_utf8_unchecked(v) });
}
pub fn option_vec(n: usize) {
    let some: Option<Vec<u64>> = Some(sym_vec_u64(n)); truncated(&some);
    let none: Option<Vec<u64>> = None; truncated(&none);
}
pub fn raw(l: usize) { let (v, _) = any_raw(l); truncated(&v); }
pub fn int(w: usize, n: usize) { let (v, _) = any_int(w, n); truncated(&v); }
pub fn bitvector(l: usize, rank: bool) {
    let (raw, _) = any_bits(l);
    let mut bv = BitVector::from(raw);
    if rank { bv.enable_rank(); }
    truncated(&bv);
}

/// skip_option on an intact stream lands exactly on the next value.
pub fn skip_option_intact(n: usize) {
    let some: Option<Vec<u64>> = Some(sym_vec_u64(n));
    let tail = sym::u64();
    let mut buf = [0u8; BUF];
    let size = some.size_in_bytes();
    { let mut w: &mut [u8] = &mut buf; some.serialize(&mut w).unwrap(); tail.serialize(&mut w).unwrap(); }
    let mut r: &[u8] = &buf[..size + 8];
    assert!(serialize::skip_option(&mut r).is_ok());
    assert!(r.len() == 8);
    assert!(u64::load(&mut r).unwrap() == tail);
}

/// skip_option on a stream cut strictly inside the optional (header included) is an error.
pub fn skip_option_cut(n: usize) {
    let some: Option<Vec<u64>> = Some(sym_vec_u64(n));
    let mut buf = [0u8; BUF];
    let size = some.size_in_bytes();
    { let mut w: &mut [u8] = &mut buf; some.serialize(&mut w).unwrap(); }
    let k = sym::usize();
    sym::assume(k < size);
    let mut r: &[u8] = &buf[..k];
    let res = serialize::skip_option(&mut r);
    assert!(res.is_err());
    std::mem::forget(res);
}

/// absent_option / absent_option_size agree with Option::<T>::None.
pub fn absent_option() {
    let mut a = [0xFFu8; 16];
    let mut b = [0xFFu8; 16];
    { let mut w: &mut [u8] = &mut a; serialize::absent_option(&mut w).unwrap(); assert!(w.len() == 8); }
    { let none: Option<Vec<u64>> = None; let mut w: &mut [u8] = &mut b; none.serialize(&mut w).unwrap(); assert!(none.size_in_elements() == serialize::absent_option_size()); }
    let mut i = 0; while i < 16 { assert!(a[i] == b[i]); i += 1; }
    let mut r: &[u8] = &a[..8];
    assert!(serialize::skip_option(&mut r).is_ok() && r.len() == 0);
}
