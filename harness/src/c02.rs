//! C02 / C15 — Elias–Fano sparse vector against the sorted position list (set and multiset
//! semantics). The embedded `high` bitvector is answered by the specification stubs (R3).
use crate::sym;
use simple_sds::sparse_vector::{SparseVector, SparseBuilder};
use simple_sds::ops::{BitVec, Rank, Select, SelectZero, PredSucc};
use std::convert::TryFrom;

pub const MP: usize = 24;

#[cfg(kani)]
fn set_scan(n: usize) { crate::stubs_bv::set_scan(n); }
#[cfg(not(kani))]
fn set_scan(_n: usize) {}

#[cfg(kani)]
fn set_width(w: usize) { crate::stubs::set_sparse_width(w); }
#[cfg(not(kani))]
fn set_width(_w: usize) {}

/// Reference: sorted positions p[0..m].
#[derive(Clone, Copy)]
pub struct Ref { pub n: usize, pub m: usize, pub p: [usize; MP] }

impl Ref {
    /// number of values < i
    pub fn rank(&self, i: usize) -> usize { let mut k = 0; let mut r = 0; while k < MP { if k < self.m && self.p[k] < i { r += 1; } k += 1; } r }
    /// number of values <= i
    pub fn rank_le(&self, i: usize) -> usize { let mut k = 0; let mut r = 0; while k < MP { if k < self.m && self.p[k] <= i { r += 1; } k += 1; } r }
    pub fn contains(&self, i: usize) -> bool { let mut k = 0; let mut r = false; while k < MP { if k < self.m && self.p[k] == i { r = true; } k += 1; } r }
    /// number of distinct values
    pub fn distinct(&self) -> usize { let mut k = 0; let mut r = 0; while k < MP { if k < self.m && (k == 0 || self.p[k] != self.p[k - 1]) { r += 1; } k += 1; } r }
}

/// Arbitrary sorted positions below `n`: strictly increasing (set) or non-decreasing (multiset).
pub fn any_positions(n: usize, m: usize, multiset: bool) -> Ref {
    let mut r = Ref { n, m, p: [0; MP] };
    let mut k = 0;
    while k < m {
        let x = sym::usize();
        sym::assume(x < n);
        if k > 0 { if multiset { sym::assume(x >= r.p[k - 1]); } else { sym::assume(x > r.p[k - 1]); } }
        r.p[k] = x;
        k += 1;
    }
    r
}

pub fn build(r: &Ref, w: usize, multiset: bool) -> SparseVector {
    set_width(w);
    // high.len() = ones + ceil(universe / 2^w)
    set_scan(r.m + (r.n >> w) + (if r.n & ((1usize << w) - 1) != 0 { 1 } else { 0 }));
    let mut b = if multiset { SparseBuilder::multiset(r.n, r.m) } else { SparseBuilder::new(r.n, r.m).unwrap() };
    let mut k = 0;
    while k < r.m { b.set(r.p[k]); k += 1; }
    assert!(b.is_full());
    SparseVector::try_from(b).unwrap()
}

/// Queries of C02 (set semantics), arguments over all usize; `q` selects the operation group
/// (one solver query per group keeps each formula small).
pub fn set_queries(n: usize, m: usize, w: usize, q: u8) {
    let r = any_positions(n, m, false);
    let v = build(&r, w, false);
    let i = sym::usize();
    match q {
        0 => {
            assert!(v.len() == n && v.count_ones() == m && v.count_zeros() == n - m);
            assert!(v.is_empty() == (n == 0));
            assert!(!v.is_multiset());
            if i < n { assert!(v.get(i) == r.contains(i)); }
        }
        1 => {
            assert!(v.rank(i) == r.rank(i));
            if i <= n { assert!(v.rank_zero(i) == i - r.rank(i)); }
        }
        2 => match v.select(i) {
            None => assert!(i >= m),
            Some(p) => assert!(i < m && p == r.p[i]),
        },
        // select_zero: the unset position q with exactly i unset positions before it
        3 => match v.select_zero(i) {
            None => assert!(i >= n - m),
            Some(q) => assert!(i < n - m && q < n && !r.contains(q) && q - r.rank(q) == i),
        },
        4 => match v.predecessor(i).next() {
            None => assert!(r.rank_le(i) == 0),
            Some((rk, p)) => assert!(rk + 1 == r.rank_le(i) && p == r.p[rk] && p <= i),
        },
        _ => match v.successor(i).next() {
            None => assert!(r.rank(i) == m),
            Some((rk, p)) => assert!(rk == r.rank(i) && rk < m && p == r.p[rk] && p >= i),
        },
    }
}

/// Iterators of the set-semantics vector; `q` selects: 0 one_iter forward, 1 one_iter backward,
/// 2 select_iter continues with consecutive ranks, 3 select_zero_iter likewise.
pub fn set_iters(n: usize, m: usize, w: usize, q: u8) {
    let r = any_positions(n, m, false);
    let v = build(&r, w, false);
    match q {
        0 => {
            let mut it = v.one_iter();
            let mut k = 0;
            while k < MP { if k < m { assert!(it.len() == m - k); assert!(it.next() == Some((k, r.p[k]))); } k += 1; }
            assert!(it.next().is_none());
        }
        1 => {
            let mut it = v.one_iter();
            let mut k = 0;
            while k < MP { if k < m { assert!(it.next_back() == Some((m - 1 - k, r.p[m - 1 - k]))); } k += 1; }
            assert!(it.next_back().is_none() && it.next().is_none());
        }
        2 => {
            let s = sym::usize();
            let mut it = v.select_iter(s);
            match it.next() {
                None => assert!(s >= m),
                Some((rk, p)) => {
                    assert!(rk == s && p == r.p[s]);
                    match it.next() { None => assert!(s + 1 == m), Some((r2, p2)) => assert!(r2 == s + 1 && p2 == r.p[s + 1]) }
                }
            }
        }
        _ => {
            // zero iterator positioned anywhere continues with consecutive ranks
            let z = sym::usize();
            let mut zi = v.select_zero_iter(z);
            match zi.next() {
                None => assert!(z >= n - m),
                Some((rk, q)) => {
                    assert!(rk == z && !r.contains(q) && q - r.rank(q) == z);
                    match zi.next() { None => assert!(z + 1 == n - m), Some((r2, q2)) => assert!(r2 == z + 1 && q2 > q && !r.contains(q2) && q2 - r.rank(q2) == z + 1) }
                }
            }
        }
    }
}

/// All bits through iter() in both directions (small universes only).
pub fn set_bits(n: usize, m: usize, w: usize) {
    let r = any_positions(n, m, false);
    let v = build(&r, w, false);
    let mut it = v.iter();
    let mut i = 0;
    while i < n { assert!(it.len() == n - i); assert!(it.next() == Some(r.contains(i))); i += 1; }
    assert!(it.next().is_none());
    // meet in the middle
    let cut = sym::usize_in(0, n);
    let mut it = v.iter();
    let mut i = 0;
    while i < n { if i < cut { assert!(it.next() == Some(r.contains(i))); } i += 1; }
    let mut j = n;
    while j > 0 { if j > cut { assert!(it.next_back() == Some(r.contains(j - 1))); } j -= 1; }
    assert!(it.next().is_none() && it.next_back().is_none());
    let mut zi = v.zero_iter();
    let mut i = 0; let mut zr = 0;
    while i < n { if !r.contains(i) { assert!(zi.len() == n - m - zr); assert!(zi.next() == Some((zr, i))); zr += 1; } i += 1; }
    assert!(zi.next().is_none());
}

/// C15: multiset semantics (duplicates allowed, m may exceed n); `q` selects the operation group.
pub fn multiset_queries(n: usize, m: usize, w: usize, q: u8) {
    let r = any_positions(n, m, true);
    let v = build(&r, w, true);
    let i = sym::usize();
    match q {
        0 => {
            assert!(v.len() == n && v.count_ones() == m);
            assert!(v.count_zeros() == if m >= n { 0 } else { n - m });
            assert!(v.is_multiset() == (r.distinct() < m));
            if i < n { assert!(v.get(i) == r.contains(i)); }
        }
        1 => {
            assert!(v.rank(i) == r.rank(i));
            match v.select(i) {
                None => assert!(i >= m),
                Some(p) => assert!(i < m && p == r.p[i]),
            }
        }
        // predecessor: LAST occurrence of the nearest value at or before i
        2 => match v.predecessor(i).next() {
            None => assert!(r.rank_le(i) == 0),
            Some((rk, p)) => assert!(rk + 1 == r.rank_le(i) && p == r.p[rk] && p <= i),
        },
        // successor: FIRST occurrence of the next value at or after i
        3 => match v.successor(i).next() {
            None => assert!(r.rank(i) == m),
            Some((rk, p)) => assert!(rk == r.rank(i) && rk < m && p == r.p[rk] && p >= i),
        },
        // set-bit iterator lists all values (with duplicates), both directions
        _ => {
            let mut it = v.one_iter();
            let mut k = 0;
            while k < MP { if k < m { assert!(it.next() == Some((k, r.p[k]))); } k += 1; }
            assert!(it.next().is_none());
            let mut it = v.one_iter();
            let mut k = 0;
            while k < MP { if k < m { assert!(it.next_back() == Some((m - 1 - k, r.p[m - 1 - k]))); } k += 1; }
            assert!(it.next_back().is_none());
        }
    }
}

/// C15: bit iterator of a multiset lists distinct positions, from both ends.
pub fn multiset_bits(n: usize, m: usize, w: usize) {
    let r = any_positions(n, m, true);
    let v = build(&r, w, true);
    let cut = sym::usize_in(0, n);
    let mut it = v.iter();
    let mut i = 0;
    while i < n { if i < cut { assert!(it.next() == Some(r.contains(i))); } i += 1; }
    let mut j = n;
    while j > 0 { if j > cut { assert!(it.next_back() == Some(r.contains(j - 1))); } j -= 1; }
    assert!(it.next().is_none() && it.next_back().is_none());
}

/// C15: try_from_iter accepts exactly the non-decreasing sequences; universe = last + 1.
/// The last value is the concrete `last` (it determines the universe, hence allocation sizes);
/// the other m-1 values are symbolic below 40 (so they may also exceed it or be out of order).
pub fn try_from_iter(m: usize, last: usize, w: usize) {
    let mut vals = [0usize; MP];
    let mut k = 0; let mut sorted = true;
    while k < m {
        vals[k] = if k + 1 == m { last } else { let x = sym::usize(); sym::assume(x < 40); x };
        if k > 0 && vals[k] < vals[k - 1] { sorted = false; }
        k += 1;
    }
    set_width(w);
    let universe = if m == 0 { 0 } else { last + 1 };
    set_scan(m + (universe >> w) + (if universe & ((1usize << w) - 1) != 0 { 1 } else { 0 }));
    let res = SparseVector::try_from_iter(vals[..m].iter().copied());
    match res {
        Err(_) => assert!(!sorted),
        Ok(v) => {
            assert!(sorted);
            assert!(v.count_ones() == m);
            assert!(v.len() == universe);
            let i = sym::usize();
            match v.select(i) { None => assert!(i >= m), Some(p) => assert!(p == vals[i]) }
        }
    }
}

/// Pure arithmetic at full width: buckets(n, w) = ceil(n / 2^w) — through the public API:
/// an EMPTY builder's vector has high.len() = buckets, observable as select_zero behaviour is
/// not public; so this is checked through serialization in C07 instead.
pub fn placeholder() {}
