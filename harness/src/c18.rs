//! C18 — memory maps are valid while alive, fully released on drop, and fail loudly.
//!
//! One template, two worlds (`env`): under Kani the file system is `stubs_mmap` + the linked C
//! model `models/mmap_model.c`; natively (counterexample replay) the same template creates a REAL
//! temp file, calls the real `MemoryMap::new` and observes `/proc/self/maps`, `/proc/self/fd` and
//! the file's bytes. All nondeterminism is drawn in the templates through `sym::*`.
use crate::sym;
use simple_sds::serialize::{MemoryMap, MappingMode};

pub const PAGE: usize = 4096;
// Linux x86_64 values of the libc constants (the harness crate has no libc dependency).
pub const PROT_READ: i32 = 1;
pub const PROT_WRITE: i32 = 2;
pub const MAP_SHARED: i32 = 1;

pub fn pages(bytes: usize) -> usize { bytes / PAGE + (if bytes % PAGE != 0 { 1 } else { 0 }) }

//-----------------------------------------------------------------------------
// The environment: one regular file and the process' view of it.

#[cfg(kani)]
pub mod env {
    use super::*;
    use crate::stubs_mmap as st;
    use crate::stubs_mmap::ffi;
    use std::path::Path;

    pub struct Env { _p: () }

    impl Env {
        /// A file of `size` bytes, capacity `cap_words` words (concrete): all zero except
        /// `word[at[i].0] = at[i].1` for the entries with an index below `size / 8`, applied in order.
        /// `missing`: the file cannot be opened; `refuse`: the OS refuses to map it.
        pub fn create(size: usize, cap_words: usize, at: &[(usize, u64)], missing: bool, refuse: bool) -> Env {
            unsafe {
                ffi::kv_file_create(cap_words * 8, size);
                let mut k = 0;
                while k < at.len() {
                    if at[k].0 < size / 8 { ffi::kv_file_set_word(at[k].0, at[k].1); }
                    k += 1;
                }
                ffi::kv_set_open_fails(missing as i32);
                ffi::kv_set_refuse(refuse as i32);
            }
            Env { _p: () }
        }
        /// A file whose content is exactly `words` (C13).
        pub fn from_words(words: &[u64], len_words: usize) -> Env {
            unsafe {
                ffi::kv_file_create(words.len() * 8, len_words * 8);
                let mut k = 0;
                while k < words.len() { ffi::kv_file_set_word(k, words[k]); k += 1; }
            }
            Env { _p: () }
        }
        /// Runs `f` (the call of `MemoryMap::new`) in the configured OS conditions.
        pub fn during_map<R>(&self, f: impl FnOnce() -> R) -> R { f() }
        pub fn path(&self) -> &Path { Path::new("/kv/file") }
        /// Number of pages of the file that are mapped in the process.
        pub fn mapped_pages(&self) -> usize { unsafe { ffi::kv_get_mapped_mask() }.count_ones() as usize }
        /// Number of open descriptors on the file.
        pub fn open_fds(&self) -> usize { unsafe { ffi::kv_get_fd_open() as usize } }
        /// Word `i` of the file itself (not through any mapping made by the code under test).
        pub fn file_word(&self, i: usize) -> u64 { unsafe { ffi::kv_file_get_word(i) } }
        /// While a map of `size` bytes is alive: how it was requested from the OS.
        pub fn check_mapping(&self, mutable: bool, size: usize) {
            unsafe {
                assert!(ffi::kv_get_open_calls() == 1);
                assert!(ffi::kv_get_opened_read() == 1);
                assert!(ffi::kv_get_opened_write() == mutable as i32);
                assert!(ffi::kv_get_mmap_oversize() == 0);
                assert!(ffi::kv_get_mmap_calls() == 1 && ffi::kv_get_mmap_ok() == 1);
                assert!(ffi::kv_get_mmap_len() == size);
                assert!(ffi::kv_get_mmap_prot() == if mutable { PROT_READ | PROT_WRITE } else { PROT_READ });
                assert!(ffi::kv_get_mmap_flags() == MAP_SHARED);
                assert!(ffi::kv_get_mmap_fd() == st::FD);
                assert!(ffi::kv_get_mmap_off() == 0);
                assert!(ffi::kv_get_munmap_calls() == 0);
                assert!(ffi::kv_get_close_calls() == 0); // "the file remains open until the MemoryMap is dropped"
            }
            assert!(self.mapped_pages() == pages(size));
            assert!(self.open_fds() == 1);
        }
        /// After the map was dropped: one munmap of the mapping, one close, nothing left.
        pub fn check_released(&self) {
            unsafe {
                assert!(ffi::kv_get_munmap_calls() == 1);
                assert!(ffi::kv_get_munmap_foreign() == 0);
                assert!(ffi::kv_get_close_calls() == 1 && ffi::kv_get_close_fd() == st::FD);
            }
            assert!(self.mapped_pages() == 0); // no part of the file remains mapped
            assert!(self.open_fds() == 0);
        }
        /// After a failed `MemoryMap::new`: nothing mapped, no descriptor leaked.
        pub fn check_failed(&self) {
            unsafe { assert!(ffi::kv_get_mmap_oversize() == 0); }
            assert!(self.mapped_pages() == 0);
            assert!(self.open_fds() == 0);
        }
        pub fn next_cycle(&self) {
            unsafe { ffi::kv_new_cycle(); }
        }
    }
}

#[cfg(not(kani))]
pub mod env {
    use super::*;
    use std::path::{Path, PathBuf};
    use std::sync::atomic::{AtomicUsize, Ordering};
    use std::io::Write;

    static COUNTER: AtomicUsize = AtomicUsize::new(0);

    pub struct Env { path: PathBuf, exists: bool, refuse: bool }

    // "The OS refuses the mapping" on the real OS: RLIMIT_AS is lowered to the current size of the
    // address space around the call, so mmap(2) fails with ENOMEM (small heap allocations are
    // still served from the already-grown heap). libc is linked through simple-sds.
    #[repr(C)]
    struct RLimit { cur: u64, max: u64 }
    extern "C" {
        fn getrlimit(resource: i32, rlim: *mut RLimit) -> i32;
        fn setrlimit(resource: i32, rlim: *const RLimit) -> i32;
    }
    const RLIMIT_AS: i32 = 9;
    fn vm_bytes() -> u64 {
        let s = std::fs::read_to_string("/proc/self/statm").expect("/proc/self/statm");
        s.split_whitespace().next().unwrap().parse::<u64>().unwrap() * PAGE as u64
    }

    struct Region { start: usize, end: usize, perms: String, offset: usize }

    impl Env {
        pub fn create(size: usize, _cap_words: usize, at: &[(usize, u64)], missing: bool, refuse: bool) -> Env {
            let mut bytes: Vec<u8> = vec![0u8; size];
            for &(i, v) in at {
                if i < size / 8 { bytes[8 * i .. 8 * i + 8].copy_from_slice(&v.to_le_bytes()); }
            }
            Env::from_bytes(&bytes, missing, refuse)
        }
        pub fn from_words(words: &[u64], len_words: usize) -> Env {
            let mut bytes: Vec<u8> = Vec::new();
            for w in &words[..len_words] { bytes.extend_from_slice(&w.to_le_bytes()); }
            Env::from_bytes(&bytes, false, false)
        }
        fn from_bytes(bytes: &[u8], missing: bool, refuse: bool) -> Env {
            let n = COUNTER.fetch_add(1, Ordering::SeqCst);
            let mut path = std::env::temp_dir();
            path.push(format!("kv-mmap-{}-{}.bin", std::process::id(), n));
            let _ = std::fs::remove_file(&path);
            if !missing {
                let mut f = std::fs::File::create(&path).expect("temp file");
                f.write_all(bytes).expect("write temp file");
                f.sync_all().expect("sync temp file");
                drop(f);
                path = std::fs::canonicalize(&path).expect("canonical path");
            }
            Env { path, exists: !missing, refuse }
        }
        /// Runs `f` (the call of `MemoryMap::new`) in the configured OS conditions.
        pub fn during_map<R>(&self, f: impl FnOnce() -> R) -> R {
            if !self.refuse { return f(); }
            drop(vec![0u8; 1 << 16]); // make sure the heap has room for the small allocations in `f`
            let mut old = RLimit { cur: 0, max: 0 };
            unsafe {
                assert!(getrlimit(RLIMIT_AS, &mut old) == 0);
                let low = RLimit { cur: vm_bytes(), max: old.max };
                assert!(setrlimit(RLIMIT_AS, &low) == 0);
            }
            let r = f();
            unsafe { assert!(setrlimit(RLIMIT_AS, &old) == 0); }
            r
        }
        pub fn path(&self) -> &Path { &self.path }
        fn regions(&self) -> Vec<Region> {
            let maps = std::fs::read_to_string("/proc/self/maps").expect("/proc/self/maps");
            let me = self.path.to_str().expect("utf-8 path");
            let mut out = Vec::new();
            for line in maps.lines() {
                let f: Vec<&str> = line.split_whitespace().collect();
                if f.len() < 6 || f[5] != me { continue; }
                let (a, b) = f[0].split_once('-').expect("range");
                out.push(Region {
                    start: usize::from_str_radix(a, 16).unwrap(), end: usize::from_str_radix(b, 16).unwrap(),
                    perms: f[1].to_string(), offset: usize::from_str_radix(f[2], 16).unwrap(),
                });
            }
            out
        }
        pub fn mapped_pages(&self) -> usize {
            self.regions().iter().map(|r| (r.end - r.start) / PAGE).sum()
        }
        pub fn open_fds(&self) -> usize {
            let mut n = 0;
            for e in std::fs::read_dir("/proc/self/fd").expect("/proc/self/fd") {
                if let Ok(e) = e {
                    if let Ok(t) = std::fs::read_link(e.path()) { if t == self.path { n += 1; } }
                }
            }
            n
        }
        pub fn file_word(&self, i: usize) -> u64 {
            let bytes = std::fs::read(&self.path).expect("read temp file");
            let mut w = [0u8; 8];
            w.copy_from_slice(&bytes[8 * i .. 8 * i + 8]);
            u64::from_le_bytes(w)
        }
        pub fn check_mapping(&self, mutable: bool, size: usize) {
            let r = self.regions();
            assert!(r.len() == 1, "the file is mapped as one region");
            let p = r[0].perms.as_bytes();
            assert!(p[0] == b'r');
            assert!((p[1] == b'w') == mutable);
            assert!(p[3] == b's', "MAP_SHARED");
            assert!(r[0].offset == 0);
            assert!(r[0].start % PAGE == 0);
            assert!(self.mapped_pages() == pages(size));
            assert!(self.open_fds() == 1);
        }
        pub fn check_released(&self) {
            let left = self.mapped_pages();
            assert!(left == 0, "{} page(s) of the file are still mapped after drop", left);
            assert!(self.open_fds() == 0);
        }
        pub fn check_failed(&self) {
            assert!(self.mapped_pages() == 0);
            assert!(self.open_fds() == 0);
        }
        pub fn next_cycle(&self) {}
    }

    impl Drop for Env {
        fn drop(&mut self) {
            if self.exists { let _ = std::fs::remove_file(&self.path); }
        }
    }
}

pub use env::Env;

//-----------------------------------------------------------------------------

/// What the file must contain: zero except for a few recorded writes (later slots win).
/// Slots are addressed by concrete numbers (no symbolic indexing into the table).
pub const SLOTS: usize = 5;
pub struct Expect { pub on: [bool; SLOTS], pub at: [(usize, u64); SLOTS] }
impl Expect {
    pub fn new() -> Expect { Expect { on: [false; SLOTS], at: [(0, 0); SLOTS] } }
    pub fn set(&mut self, slot: usize, i: usize, v: u64) { self.at[slot] = (i, v); self.on[slot] = true; }
    pub fn word(&self, i: usize) -> u64 {
        let mut r = 0u64;
        let mut k = 0;
        while k < SLOTS { if self.on[k] && self.at[k].0 == i { r = self.at[k].1; } k += 1; }
        r
    }
}

/// Keeps a drawn value in CBMC's cone of influence of every property (a tautology the simplifier
/// does not remove). Without it `--slice-formula` drops inputs that the failing check does not
/// depend on from the counterexample trace, and the remaining values are replayed out of order.
pub fn keep(v: u64) { sym::assume((v | 1) != 0); }

/// One of a few positions in a file of `words` words: first, last, middle, around the first page
/// boundary. (A store and a load at two *independent* fully symbolic indices through the raw
/// mapping pointer cost CBMC minutes; loads use a fully symbolic index, stores and the special
/// content word use these positions.)
pub fn pick(sel: u8, words: usize) -> usize {
    if words == 0 { return 0; }
    match sel % 6 {
        0 => 0,
        1 => words - 1,
        2 => words / 2,
        3 => 511 % words,
        4 => 512 % words,
        _ => words / 3,
    }
}

/// `cycles` map/drop cycles on one file of `size` bytes (capacity `cap_words` words, concrete).
/// Symbolic: mode of every cycle, file cannot be opened, OS refusal, content (first word, last
/// word and one word at a `pick`ed position are arbitrary, the rest is zero), the index read
/// (any), the value and `pick`ed position written in every mutable cycle.
fn run(size: usize, cap_words: usize, cycles: usize, content: bool) {
    let missing = sym::bool();
    let refuse = sym::bool();
    let first = sym::u64();
    let last = sym::u64();
    let wsel = sym::u8();
    let wv = sym::u64();
    keep(missing as u64); keep(refuse as u64); keep(first); keep(last); keep(wsel as u64); keep(wv);
    let words = size / 8;
    assert!(words <= cap_words && cycles <= 2);
    let mut x = Expect::new();
    x.set(0, 0, first);
    x.set(1, if words > 0 { words - 1 } else { 0 }, last);
    x.set(2, pick(wsel, words), wv);
    // (entries whose index is not below size / 8 are ignored by `create` and never looked up)
    let e = Env::create(size, cap_words, &x.at[..3], missing, refuse);
    assert!(e.mapped_pages() == 0 && e.open_fds() == 0);
    let expect_err = missing || size % 8 != 0 || size == 0 || refuse;

    let mut c = 0;
    while c < cycles {
        let mutable = sym::bool();
        keep(mutable as u64);
        let mode = if mutable { MappingMode::Mutable } else { MappingMode::ReadOnly };
        let res = e.during_map(|| MemoryMap::new(e.path(), mode));
        match res {
            Err(err) => {
                std::mem::forget(err);
                // fails only for a documented reason
                assert!(expect_err);
                e.check_failed();
                return;
            }
            Ok(mut map) => {
                // fails loudly: a map is returned only if every step succeeded (F1: empty file)
                assert!(!expect_err);
                assert!(map.len() == words && map.len() * 8 == size);
                assert!(!map.is_empty());
                assert!(map.mode() == mode);
                e.check_mapping(mutable, size);
                if content {
                    let s: &[u64] = map.as_ref();
                    assert!(s.len() == words);
                    assert!(s[0] == x.word(0));
                    assert!(s[words - 1] == x.word(words - 1));
                    let j = sym::usize_in(0, words - 1);
                    assert!(s[j] == x.word(j));
                }
                if content && mutable {
                    let k = pick(sym::u8(), words);
                    let nv = sym::u64();
                    unsafe { map.as_mut_slice()[k] = nv; }
                    x.set(3 + c, k, nv);
                    let s: &[u64] = map.as_ref();
                    assert!(s[k] == nv);
                }
                drop(map);
                // released completely (F2), descriptor closed
                e.check_released();
                // the file has the changes and nothing else changed
                if content {
                    let j = sym::usize_in(0, words - 1);
                    assert!(e.file_word(j) == x.word(j));
                }
                e.next_cycle();
            }
        }
        c += 1;
    }
}

/// Concrete file size.
pub fn lifecycle(size: usize, cycles: usize) {
    run(size, (size + 7) / 8, cycles, true);
}

/// Every file size in `lo..=hi` bytes (symbolic, including sizes that are not multiples of 8).
/// `content == false`: sizes, lengths, OS requests, page and descriptor accounting only.
pub fn lifecycle_sym(lo: usize, hi: usize, cycles: usize, content: bool) {
    let size = sym::usize_in(lo, hi);
    sym::cover(size > PAGE && size % 8 == 0);
    sym::cover(size % 8 != 0);
    run(size, (hi + 7) / 8, cycles, content);
}
