//! C14, writer half — failed writes are always reported, never accepted.
//!
//! (1) `Serialize::serialize` into a sink that fails after a symbolic byte budget b < size
//!     returns `Err`, the sink took <= b bytes, and no write is attempted after the failed one.
//! (2) The buffered file writers against a failing file (ghost file under Kani, real
//!     RLIMIT_FSIZE natively): whenever the fault leaves the file incomplete, creation returns
//!     `Err`, or a push panics as documented ("May panic from I/O errors" -- that
//!     path is CUT where the real code calls `unwrap` on the error, `stubs_file::unwrap_failed_cut`),
//!     or `close()` returns `Err`; `close()` never returns `Ok` for an incomplete file
//!     (`int_fail`, `raw_fail`); creation under a fault returns `Err` (`create_fail`); dropping a
//!     writer whose close() failed does not panic (`drop_after_fail`).
use crate::c05::{any_int, any_raw};
use crate::c12::{created, same, Env, Snap, BIT};
use crate::sym;
use simple_sds::int_vector::{IntVector, IntVectorWriter};
use simple_sds::ops::{Push, Vector};
use simple_sds::raw_vector::{PushRaw, RawVector, RawVectorWriter};
use simple_sds::serialize::Serialize;
use std::io::{self, Write};

//-----------------------------------------------------------------------------
// (1) failing sink

/// Accepts `budget` bytes in total. The write that would exceed the budget is either short
/// (`short`) or fails without taking anything; every later write fails. Counts only (the bytes
/// are not kept: stores at symbolic offsets are what made these instances expensive).
pub struct Sink {
    pub n: usize,
    pub budget: usize,
    pub short: bool,
    pub calls_after_failure: usize,
    pub failed: bool,
}

impl Sink {
    pub fn new(budget: usize, short: bool) -> Sink { Sink { n: 0, budget, short, calls_after_failure: 0, failed: false } }
}

impl Write for Sink {
    fn write(&mut self, data: &[u8]) -> io::Result<usize> {
        if data.len() == 0 { return Ok(0); }
        if self.failed { self.calls_after_failure += 1; }
        let left = self.budget - self.n;
        let mut k = data.len();
        if left == 0 || (k > left && !self.short) {
            self.failed = true;
            self.budget = self.n;
            return Err(io::Error::from(io::ErrorKind::Other));
        }
        if k > left { k = left; }
        self.n += k;
        Ok(k)
    }
    fn flush(&mut self) -> io::Result<()> { Ok(()) }
}

/// `r.is_err()` without running the drop glue of `io::Error`: under CBMC the tag bits of an
/// io::Error are opaque, its drop glue then walks into the boxed-custom-error arm, whose indirect
/// call has every drop function as a candidate (measured: does not finish).
pub fn failed<T>(r: io::Result<T>) -> bool {
    let f = r.is_err();
    std::mem::forget(r);
    f
}

/// `x` (content already drawn by the caller) serialized into a sink with any budget b < size:
/// the error is reported, nothing beyond the budget went in, and serialization stopped at the
/// failure (no further write was attempted after the one that failed).
pub fn failing_sink<T: Serialize>(x: &T) {
    let size = x.size_in_bytes();
    let b = sym::usize();
    sym::assume(b < size);
    let short = sym::bool();
    let mut s = Sink::new(b, short);
    let err = failed(x.serialize(&mut s));
    assert!(err && s.n <= b && s.failed && s.calls_after_failure == 0);
    // with a sufficient budget the same value goes through (the sink itself is not the reason)
    let mut t = Sink::new(size, short);
    assert!(!failed(x.serialize(&mut t)) && t.n == size && !t.failed);
}

fn sym_vec_u64(n: usize) -> Vec<u64> { let mut v = Vec::with_capacity(n); let mut i = 0; while i < n { v.push(sym::u64()); i += 1; } v }
fn sym_bytes(n: usize) -> Vec<u8> { let mut v = Vec::with_capacity(n); let mut i = 0; while i < n { v.push(sym::u8()); i += 1; } v }

pub fn sink_raw(l: usize) { let (v, _) = any_raw(l); failing_sink(&v); }
pub fn sink_int(w: usize, n: usize) { let (v, _) = any_int(w, n); failing_sink(&v); }
pub fn sink_vec_u64(n: usize) { let v = sym_vec_u64(n); failing_sink(&v); }
pub fn sink_bytes(n: usize) { let v = sym_bytes(n); failing_sink(&v); }
pub fn sink_option_vec(n: usize) {
    let some: Option<Vec<u64>> = Some(sym_vec_u64(n));
    failing_sink(&some);
    let none: Option<Vec<u64>> = None;
    failing_sink(&none);
}
pub fn sink_option_raw(l: usize) { let (v, _) = any_raw(l); let o = Some(v); failing_sink(&o); }

//-----------------------------------------------------------------------------
// (2) buffered writers against a failing file

/// File-size limit L (RLIMIT_FSIZE; emulated natively with the real setrlimit).
pub const LIMIT: u8 = 0;
/// The device takes b bytes in total (counting the header rewrite); the straddling write is
/// short or fails outright (symbolic). Ghost file only: native replay reports "not applicable".
pub const BUDGET: u8 = 1;

/// Draws the fault parameter in lo..hi and arms the file.
fn set_fault(env: &mut Env, model: u8, lo: usize, hi: usize) {
    let fault = sym::usize();
    let short = sym::bool();
    sym::assume(fault >= lo && fault < hi);
    // `lo` bytes are already in the file when the fault is armed
    if model == LIMIT { env.set_limit(fault); } else { env.set_budget(fault - lo, short); }
    env.length_only();
}

/// IntVectorWriter (width `w`, `b`-item buffer, `k` symbolic pushes). Fault: every limit
/// hdr <= L < size, or every budget hdr <= b < size + hdr (hdr = 32 bytes = what creation
/// writes, size = the complete file, size + hdr = all bytes of a successful run): creation
/// succeeds and the complete file is impossible. Then either a push panics as documented (path
/// cut at the real `unwrap`), or `close()` returns Err -- never Ok -- and so does a retry.
/// The writer is forgotten at the end (its Drop under a fault: `drop_after_fail`).
pub fn int_fail(w: usize, b: usize, k: usize, model: u8) {
    let mut env = Env::new();
    let size = 8 * (4 + (k * w + 63) / 64);
    assert!(k <= 8);
    let mut xs = [0u64; 8];
    let mut i = 0;
    while i < k { xs[i] = sym::u64(); i += 1; }
    let mut writer = match created(IntVectorWriter::with_buf_len(env.name(), w, b)) { Some(x) => x, None => return };
    // armed after creation (which wrote the 32-byte placeholder): equivalent to arming before it, the
    // fault range starting at 32, and keeps creation free of symbolic error paths
    set_fault(&mut env, model, 32, if model == LIMIT { size } else { size + 32 });
    // a push may panic from I/O errors (documented): that path ends here
    env.may_panic(|| { let mut j = 0; while j < k { writer.push(xs[j]); j += 1; } });
    assert!(writer.len() == k);
    let err1 = failed(writer.close());
    sym::cover(err1);
    // retry under the persisting fault
    let err2 = failed(writer.close());
    assert!(err1 && err2);
    env.clear_limit();
    assert!(model != LIMIT || env.file_len() < size);
    std::mem::forget(writer);
}

/// RawVectorWriter (`buf_bits` buffer, pushes `ops`, `h`-word user header), faults as in `int_fail`.
pub fn raw_fail(buf_bits: usize, ops: &[usize], h: usize, model: u8) {
    let mut env = Env::new();
    assert!(ops.len() <= 8);
    let mut xs = [0u64; 8];
    let mut bits = 0;
    let mut i = 0;
    while i < ops.len() { xs[i] = sym::u64(); bits += if ops[i] == BIT { 1 } else { ops[i] }; i += 1; }
    let hdr = 8 * (h + 2);
    let size = hdr + 8 * ((bits + 63) / 64);
    let mut placeholder: Vec<u64> = Vec::with_capacity(h + 2);
    let mut header: Vec<u64> = Vec::with_capacity(h + 2);
    let mut j = 0;
    while j < h { placeholder.push(sym::u64()); header.push(sym::u64()); j += 1; }
    let mut writer = match created(RawVectorWriter::with_buf_len(env.name(), &mut placeholder, buf_bits)) { Some(x) => x, None => return };
    set_fault(&mut env, model, hdr, if model == LIMIT { size } else { size + hdr });
    env.may_panic(|| {
        let mut j = 0;
        while j < ops.len() {
            if ops[j] == BIT { writer.push_bit(xs[j] & 1 == 1); } else { unsafe { writer.push_int(xs[j], ops[j]); } }
            j += 1;
        }
    });
    assert!(writer.len() == bits);
    let err1 = failed(writer.close_with_header(&mut header));
    sym::cover(err1);
    // retry under the persisting fault, through the other entry point
    let err2 = failed(writer.close());
    assert!(err1 && err2);
    env.clear_limit();
    assert!(model != LIMIT || env.file_len() < size);
    std::mem::forget(writer);
}

/// Creation under a fault that does not even let the placeholder header through (every limit /
/// budget < 32 bytes): `with_buf_len` returns Err -- no panic, also not from dropping the
/// half-built writer inside it (real Drop, real drop glue of io::Error).
pub fn create_fail(w: usize, b: usize, model: u8) {
    let mut env = Env::new();
    set_fault(&mut env, model, 0, 32);
    let err = failed(IntVectorWriter::with_buf_len(env.name(), w, b));
    assert!(err);
    env.clear_limit();
    assert!(env.file_len() < 32);
    if let Some(c) = env.closes() { assert!(c == 1); }
}

/// `close()` fails (limit L with 32 <= L < size), then the still open writer is dropped: Drop
/// ignores all errors and does not panic; the descriptor is closed exactly once.
pub fn drop_after_fail(w: usize, b: usize, k: usize) {
    let mut env = Env::new();
    let size = 8 * (4 + (k * w + 63) / 64);
    assert!(k <= 8);
    let mut xs = [0u64; 8];
    let mut i = 0;
    while i < k { xs[i] = sym::u64(); i += 1; }
    let mut writer = match created(IntVectorWriter::with_buf_len(env.name(), w, b)) { Some(x) => x, None => return };
    set_fault(&mut env, LIMIT, 32, size);
    env.may_panic(|| { let mut j = 0; while j < k { writer.push(xs[j]); j += 1; } });
    let err = failed(writer.close());
    drop(writer);
    assert!(err);
    if let Some(c) = env.closes() { assert!(c == 1); }
    env.clear_limit();
    assert!(env.file_len() < size);
}

/// Positive control: a file-size limit of exactly the size of the complete file is enough (the
/// writer never writes beyond the final size), and the file is complete.
pub fn int_limit_exact(w: usize, b: usize, k: usize) {
    let mut env = Env::new();
    let size = 8 * (4 + (k * w + 63) / 64);
    env.set_limit(size);
    let mut writer = match created(IntVectorWriter::with_buf_len(env.name(), w, b)) { Some(x) => x, None => return };
    let mut v = IntVector::new(w).unwrap();
    let mut i = 0;
    while i < k { let x = sym::u64(); writer.push(x); v.push(x); i += 1; }
    let err = failed(writer.close());
    env.clear_limit();
    let mut expected = Snap::empty();
    expected.push_ser(&v);
    let s = env.snap();
    assert!(!err && expected.len == size);
    same(&s, &expected);
}

/// open() fails: creation returns the error (no panic), nothing is left open or written.
pub fn open_fail(w: usize, b: usize) {
    let mut env = Env::new();
    env.set_open_fail();
    let failed_int = failed(IntVectorWriter::with_buf_len(env.name(), w, b));
    let mut header: Vec<u64> = Vec::with_capacity(2);
    let failed_raw = failed(RawVectorWriter::with_buf_len(env.name(), &mut header, b * w));
    assert!(failed_int && failed_raw);
    if let Some(c) = env.closes() { assert!(c == 0); }
    assert!(env.snap().len == 0);
}
