//! C12 — the buffered file writers (`RawVectorWriter`, `IntVectorWriter`) leave exactly the
//! bytes of the in-memory serialization; `len()` counts what was pushed; `close()` is
//! idempotent; dropping an open writer leaves the same complete file.
//!
//! Shapes (width, buffer length, number and widths of the pushes, user-header length) are
//! concrete arguments; every pushed value/bit and every header word is symbolic.
//! The file is the GHOST FILE of `stubs_file.rs` under Kani and a real temporary file in
//! native replay (`Env`, two implementations with one interface).
use crate::sym;
use simple_sds::int_vector::{IntVector, IntVectorWriter};
use simple_sds::ops::{Push, Vector};
use simple_sds::raw_vector::{PushRaw, RawVector, RawVectorWriter};
use simple_sds::serialize::Serialize;

/// Capacity of a file snapshot (and of the ghost file).
pub const CAP: usize = 96;

/// Content of a file / of an expected serialization: `len` bytes.
pub struct Snap {
    pub len: usize,
    pub bytes: [u8; CAP],
}

impl Snap {
    pub fn empty() -> Snap { Snap { len: 0, bytes: [0x5A; CAP] } }
    pub fn push_word(&mut self, x: u64) {
        let b = x.to_le_bytes();
        let mut i = 0;
        while i < 8 { self.bytes[self.len + i] = b[i]; i += 1; }
        self.len += 8;
    }
    /// Appends `x.serialize(..)` (slice writer over the fixed array, as in c06).
    pub fn push_ser<T: Serialize>(&mut self, x: &T) {
        let size = x.size_in_bytes();
        assert!(self.len + size <= CAP);
        let left = {
            let mut w: &mut [u8] = &mut self.bytes[self.len..];
            assert!(x.serialize(&mut w).is_ok());
            w.len()
        };
        assert!(CAP - self.len - left == size);
        self.len += size;
    }
    /// Index of the first difference (CAP if none); lengths must be equal.
    pub fn first_diff(&self, other: &Snap) -> usize {
        let n = if self.len < other.len { self.len } else { other.len };
        let mut bad = CAP;
        let mut i = n;
        while i > 0 {
            i -= 1;
            if self.bytes[i] != other.bytes[i] { bad = i; }
        }
        bad
    }
}

/// `a` and `b` are the same file content.
pub fn same(a: &Snap, b: &Snap) {
    assert!(a.len == b.len);
    assert!(a.first_diff(b) == CAP);
}

//-----------------------------------------------------------------------------
// Environment: ghost file under Kani, real temporary file natively.

#[cfg(kani)]
mod envimp {
    use super::{Snap, CAP};
    use crate::stubs_file as g;

    pub struct Env;

    impl Env {
        pub fn new() -> Env { g::reset(); Env }
        /// Short concrete literal: path handling allocates by its length.
        pub fn name(&self) -> &'static str { "g" }
        pub fn snap(&self) -> Snap {
            let mut s = Snap::empty();
            s.len = g::len();
            assert!(s.len <= CAP);
            let mut i = 0;
            while i < s.len { s.bytes[i] = g::byte(i); i += 1; }
            s
        }
        /// File-size limit in bytes (RLIMIT_FSIZE).
        pub fn set_limit(&mut self, l: usize) { g::set_limit(l); }
        pub fn clear_limit(&mut self) { g::set_limit(g::NO_LIMIT); }
        /// The template will only look at the length of the file, never at its bytes.
        pub fn length_only(&mut self) { g::set_store(false); }
        /// Length of the file.
        pub fn file_len(&self) -> usize { g::len() }
        /// The device takes `b` more bytes, then every write fails (not emulated natively).
        pub fn set_budget(&mut self, b: usize, short: bool) { g::set_budget(b, short); }
        /// Every write transfers at most `c >= 1` bytes (not emulated natively).
        pub fn set_chop(&mut self, c: usize) { g::set_chop(c); }
        /// open() fails.
        pub fn set_open_fail(&mut self) { g::set_open_fail(true); }
        /// How many times the descriptor was closed / the file was opened (ghost only).
        pub fn closes(&self) -> Option<usize> { Some(g::closes()) }
        pub fn opens(&self) -> Option<usize> { Some(g::opens()) }
        /// Runs `f`, in which the documented "may panic from I/O errors" of push may fire:
        /// under Kani that path is cut by the `unwrap_failed` stub of the instance.
        pub fn may_panic<F: FnOnce()>(&self, f: F) { f() }
    }
}

#[cfg(not(kani))]
mod envimp {
    use super::{Snap, CAP};
    use crate::sym;
    use std::path::{Path, PathBuf};
    use std::sync::atomic::{AtomicUsize, Ordering};

    static COUNTER: AtomicUsize = AtomicUsize::new(0);

    // Linux x86_64 values; the file-size limit of C14 is emulated with the real RLIMIT_FSIZE.
    #[repr(C)]
    struct RLimit { cur: u64, max: u64 }
    extern "C" {
        fn getrlimit(resource: i32, rlim: *mut RLimit) -> i32;
        fn setrlimit(resource: i32, rlim: *const RLimit) -> i32;
        fn signal(signum: i32, handler: usize) -> usize;
    }
    const RLIMIT_FSIZE: i32 = 1;
    const SIGXFSZ: i32 = 25;
    const SIG_IGN: usize = 1;

    pub struct Env { path: PathBuf, old: Option<u64> }

    impl Env {
        pub fn new() -> Env {
            let n = COUNTER.fetch_add(1, Ordering::SeqCst);
            let path = std::env::temp_dir().join(format!("kv-ghost-{}-{}", std::process::id(), n));
            let _ = std::fs::remove_file(&path);
            Env { path, old: None }
        }
        pub fn name(&self) -> &Path { self.path.as_path() }
        pub fn snap(&self) -> Snap {
            let mut s = Snap::empty();
            if let Ok(v) = std::fs::read(&self.path) {
                assert!(v.len() <= CAP, "native file larger than the snapshot capacity");
                s.len = v.len();
                s.bytes[..v.len()].copy_from_slice(&v);
            }
            s
        }
        pub fn set_limit(&mut self, l: usize) {
            unsafe {
                let mut r = RLimit { cur: 0, max: 0 };
                assert!(getrlimit(RLIMIT_FSIZE, &mut r) == 0);
                if self.old.is_none() { self.old = Some(r.cur); }
                signal(SIGXFSZ, SIG_IGN);
                r.cur = l as u64;
                assert!(setrlimit(RLIMIT_FSIZE, &r) == 0);
            }
        }
        pub fn clear_limit(&mut self) {
            if let Some(cur) = self.old.take() {
                unsafe {
                    let mut r = RLimit { cur: 0, max: 0 };
                    assert!(getrlimit(RLIMIT_FSIZE, &mut r) == 0);
                    r.cur = cur;
                    assert!(setrlimit(RLIMIT_FSIZE, &r) == 0);
                }
            }
        }
        pub fn length_only(&mut self) {}
        pub fn file_len(&self) -> usize { std::fs::metadata(&self.path).map(|m| m.len() as usize).unwrap_or(0) }
        pub fn set_budget(&mut self, _b: usize, _short: bool) { sym::assume(false); }
        pub fn set_chop(&mut self, _c: usize) { sym::assume(false); }
        pub fn set_open_fail(&mut self) {
            // a path below a directory that does not exist
            self.path = self.path.join("missing").join("f");
        }
        pub fn closes(&self) -> Option<usize> { None }
        pub fn opens(&self) -> Option<usize> { None }
        pub fn may_panic<F: FnOnce()>(&self, f: F) {
            if std::panic::catch_unwind(std::panic::AssertUnwindSafe(f)).is_err() {
                // the documented panic of push: this input is outside the template's claim
                eprintln!("REPLAY-DOCUMENTED-PANIC");
                let _ = std::fs::remove_file(&self.path);
                std::process::exit(3);
            }
        }
    }

    impl Drop for Env {
        fn drop(&mut self) {
            self.clear_limit();
            let _ = std::fs::remove_file(&self.path);
        }
    }
}

pub use envimp::Env;

//-----------------------------------------------------------------------------
// IntVectorWriter

/// Creation must succeed (asserted); `None` only on the failed-assertion path.
pub fn created<T>(r: std::io::Result<T>) -> Option<T> {
    let ok = r.is_ok();
    assert!(ok);
    match r { Ok(x) => Some(x), Err(e) => { std::mem::forget(e); None } }
}

fn expected_int(v: &IntVector) -> Snap {
    let mut expected = Snap::empty();
    expected.push_ser(v);
    assert!(expected.len == v.size_in_bytes());
    expected
}

/// close(); close() again; drop: the file is `expected` after the first close and stays so.
fn int_finish_close(env: &Env, mut writer: IntVectorWriter, v: &IntVector, k: usize) {
    assert!(writer.len() == k && writer.is_open());
    let expected = expected_int(v);
    let ok1 = writer.close().is_ok();
    assert!(ok1 && !writer.is_open() && writer.len() == k);
    let s1 = env.snap();
    same(&s1, &expected);
    if let Some(c) = env.closes() { assert!(c == 1); }
    // idempotent
    let ok2 = writer.close().is_ok();
    assert!(ok2 && !writer.is_open() && writer.len() == k);
    let s2 = env.snap();
    same(&s2, &s1);
    drop(writer);
    let s3 = env.snap();
    same(&s3, &s1);
    if let Some(c) = env.closes() { assert!(c == 1); }
    if let Some(o) = env.opens() { assert!(o == 1); }
}

/// drop without close(): the same complete file.
fn int_finish_drop(env: &Env, writer: IntVectorWriter, v: &IntVector, k: usize) {
    assert!(writer.len() == k && writer.is_open());
    let expected = expected_int(v);
    drop(writer);
    let s1 = env.snap();
    same(&s1, &expected);
    if let Some(c) = env.closes() { assert!(c == 1); }
    if let Some(o) = env.opens() { assert!(o == 1); }
}

/// `k` symbolic values pushed through an IntVectorWriter of width `w` with a `b`-item buffer
/// and, in step, into an IntVector.
fn int_pushes(env: &Env, w: usize, b: usize, k: usize) -> Option<(IntVectorWriter, IntVector)> {
    let mut writer = match created(IntVectorWriter::with_buf_len(env.name(), w, b)) { Some(x) => x, None => return None };
    let mut v = IntVector::new(w).unwrap();
    assert!(writer.len() == 0 && writer.is_empty() && writer.width() == w && writer.is_open());
    let mut i = 0;
    while i < k {
        let x = sym::u64();
        writer.push(x);
        v.push(x);
        i += 1;
        assert!(writer.len() == i);
    }
    Some((writer, v))
}

/// Pushes, close, close again, drop.
pub fn int_close(w: usize, b: usize, k: usize) {
    let env = Env::new();
    if let Some((writer, v)) = int_pushes(&env, w, b, k) { int_finish_close(&env, writer, &v, k); }
}

/// Pushes, then the open writer is dropped.
pub fn int_drop(w: usize, b: usize, k: usize) {
    let env = Env::new();
    if let Some((writer, v)) = int_pushes(&env, w, b, k) { int_finish_drop(&env, writer, &v, k); }
}

/// `Extend<T>` on the writer (T by `t`: 0 u64, 1 u8, 2 u16, 3 u32, 4 usize) == repeated push:
/// one pushed item, then `k` items by one `extend`, then one pushed item.
pub fn int_extend(w: usize, b: usize, k: usize, t: u8) {
    let env = Env::new();
    let mut writer = match created(IntVectorWriter::with_buf_len(env.name(), w, b)) { Some(x) => x, None => return };
    let mut v = IntVector::new(w).unwrap();
    let first = sym::u64();
    writer.push(first);
    v.push(first);
    let mut xs = [0u64; 8];
    assert!(k <= 8);
    let mut i = 0;
    while i < k {
        let x = sym::u64();
        xs[i] = match t { 1 => x as u8 as u64, 2 => x as u16 as u64, 3 => x as u32 as u64, _ => x };
        v.push(xs[i]);
        i += 1;
    }
    match t {
        0 => writer.extend(xs[..k].iter().copied()),
        1 => writer.extend(xs[..k].iter().map(|x| *x as u8)),
        2 => writer.extend(xs[..k].iter().map(|x| *x as u16)),
        3 => writer.extend(xs[..k].iter().map(|x| *x as u32)),
        _ => writer.extend(xs[..k].iter().map(|x| *x as usize)),
    }
    assert!(writer.len() == k + 1);
    let last = sym::u64();
    writer.push(last);
    v.push(last);
    int_finish_close(&env, writer, &v, k + 2);
}

/// An invalid width `w` (0 or > 64) is refused before anything is opened.
pub fn int_bad_width(w: usize) {
    let env = Env::new();
    let r = IntVectorWriter::with_buf_len(env.name(), w, 4);
    assert!(r.is_err());
    std::mem::forget(r); // the boxed custom io::Error has expensive drop glue under CBMC
    if let Some(o) = env.opens() { assert!(o == 0); }
    assert!(env.snap().len == 0);
}

/// The real `write_all` loop over a `write` that transfers at most `chop` bytes per call
/// (short writes that later succeed) still leaves the complete file. Ghost file only.
pub fn int_chopped(w: usize, b: usize, k: usize, chop: usize) {
    let mut env = Env::new();
    env.set_chop(chop);
    if let Some((writer, v)) = int_pushes(&env, w, b, k) { int_finish_close(&env, writer, &v, k); }
}

//-----------------------------------------------------------------------------
// RawVectorWriter

/// Code of a `push_bit` in an `ops` list; codes 0..=64 are `push_int(value, code)`.
pub const BIT: usize = 100;

fn sym_header(h: usize) -> Vec<u64> {
    let mut v: Vec<u64> = Vec::with_capacity(h + 2);
    let mut i = 0;
    while i < h { v.push(sym::u64()); i += 1; }
    v
}

/// Pushes `ops` (symbolic bit / symbolic value of the given concrete width each) through a
/// RawVectorWriter with a `buf_bits`-bit buffer created with an `h`-word symbolic placeholder
/// header and, in step, into a RawVector.
fn raw_pushes(env: &Env, buf_bits: usize, ops: &[usize], h: usize) -> Option<(RawVectorWriter, RawVector, usize)> {
    let mut placeholder = sym_header(h);
    let mut writer = match created(RawVectorWriter::with_buf_len(env.name(), &mut placeholder, buf_bits)) { Some(x) => x, None => return None };
    let mut v = RawVector::new();
    assert!(writer.len() == 0 && writer.is_empty() && writer.is_open());
    let mut bits = 0;
    let mut len_ok = true;
    let mut i = 0;
    while i < ops.len() {
        if ops[i] == BIT {
            let x = sym::bool();
            writer.push_bit(x);
            v.push_bit(x);
            bits += 1;
        } else {
            let x = sym::u64();
            unsafe { writer.push_int(x, ops[i]); v.push_int(x, ops[i]); }
            bits += ops[i];
        }
        i += 1;
        len_ok &= writer.len() == bits;
    }
    // len() counted every push (one assertion after the loop: an empty `ops` never enters it)
    assert!(len_ok && v.len() == bits && writer.is_open());
    Some((writer, v, bits))
}

/// Pushes, then `close_with_header` with `h` symbolic user-header words (`with_header`; the
/// placeholder at creation had `h` OTHER symbolic words -- the protocol IntVectorWriter follows)
/// or plain `close()` (`h` must be 0); then both closes again; then drop.
/// File == user header ++ serialize(RawVector).
pub fn raw_close(buf_bits: usize, ops: &[usize], h: usize, with_header: bool) {
    assert!(with_header || h == 0);
    let env = Env::new();
    let (mut writer, v, bits) = match raw_pushes(&env, buf_bits, ops, h) { Some(x) => x, None => return };
    let mut header = sym_header(h);
    let mut expected = Snap::empty();
    let mut j = 0;
    while j < h { expected.push_word(header[j]); j += 1; }
    expected.push_ser(&v);
    assert!(expected.len == 8 * h + v.size_in_bytes());
    let ok1 = if with_header { writer.close_with_header(&mut header).is_ok() } else { writer.close().is_ok() };
    assert!(ok1 && !writer.is_open() && writer.len() == bits);
    let s1 = env.snap();
    same(&s1, &expected);
    if let Some(c) = env.closes() { assert!(c == 1); }
    // idempotent, through both entry points
    let ok2 = writer.close().is_ok();
    let mut again = sym_header(h);
    let ok3 = writer.close_with_header(&mut again).is_ok();
    assert!(ok2 && ok3 && !writer.is_open() && writer.len() == bits);
    let s2 = env.snap();
    same(&s2, &s1);
    drop(writer);
    let s3 = env.snap();
    same(&s3, &s1);
    if let Some(c) = env.closes() { assert!(c == 1); }
    if let Some(o) = env.opens() { assert!(o == 1); }
}

/// Pushes (no user header), then the open writer is dropped: the same complete file.
pub fn raw_drop(buf_bits: usize, ops: &[usize]) {
    let env = Env::new();
    let (writer, v, _bits) = match raw_pushes(&env, buf_bits, ops, 0) { Some(x) => x, None => return };
    let mut expected = Snap::empty();
    expected.push_ser(&v);
    assert!(expected.len == v.size_in_bytes());
    drop(writer);
    let s1 = env.snap();
    same(&s1, &expected);
    if let Some(c) = env.closes() { assert!(c == 1); }
    if let Some(o) = env.opens() { assert!(o == 1); }
}
