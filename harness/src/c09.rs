//! C09 — totality at out-of-range and extreme arguments: documented answer, no panic.
use crate::sym;
use crate::oracle::Bits;
use crate::c01::any_bits;
use crate::c05::any_int;
use simple_sds::bit_vector::BitVector;
use simple_sds::int_vector::IntVector;
use simple_sds::sparse_vector::SparseBuilder;
use simple_sds::rl_vector::RLBuilder;
use simple_sds::ops::{BitVec, Rank, Select, SelectZero, PredSucc, Access, Vector};

/// Plain bitvector, arguments at or beyond the end (any usize >= len): these paths are defined
/// without touching a support structure, so none is built (in-range answers: C01).
pub fn bv_out_of_range(l: usize) {
    let (raw, b) = any_bits(l);
    let bv = BitVector::from(raw);
    let ones = b.ones();
    let i = sym::usize();
    sym::assume(i >= l);
    assert!(bv.rank(i) == ones);
    let r = sym::usize();
    sym::assume(r >= ones);
    assert!(bv.select(r).is_none());
    let mut it = bv.select_iter(r);
    assert!(it.len() == 0 && it.next().is_none() && it.next_back().is_none());
    let z = sym::usize();
    sym::assume(z >= l - ones);
    assert!(bv.select_zero(z).is_none());
    let mut zt = bv.select_zero_iter(z);
    assert!(zt.len() == 0 && zt.next().is_none());
}

/// predecessor / successor at v >= len with the REAL rank support (select support is only
/// reached when a set bit exists; the instance forces an all-zero or a last-bit-set vector so
/// that the documented answer is decided without select): successor(v>=len) is empty;
/// predecessor(v>=len) equals predecessor(len-1). All v up to usize::MAX.
pub fn bv_pred_succ_beyond(l: usize) {
    let (raw, b) = any_bits(l);
    sym::assume(b.ones() == 0);
    let mut bv = BitVector::from(raw);
    bv.enable_rank();
    let v = sym::usize();
    sym::assume(v >= l);
    let mut s = bv.successor(v);
    assert!(s.next().is_none());
    let mut p = bv.predecessor(v);
    assert!(p.next().is_none());
    let mut q = bv.predecessor(l - 1);
    assert!(q.next().is_none());
}

/// Iterator::nth / nth_back with n beyond the remainder returns None and exhausts the iterator,
/// after an arbitrary consumed prefix; n over all usize. `kind`: 0 Iter, 1 OneIter, 2 ZeroIter.
pub fn bv_iter_nth(l: usize, kind: u8) {
    let (raw, b) = any_bits(l);
    let bv = BitVector::from(raw);
    let pre = sym::usize_in(0, 3);
    let n = sym::usize();
    match kind {
        0 => {
            let mut it = bv.iter();
            let mut k = 0; while k < 3 { if k < pre { let _ = it.next(); } k += 1; }
            let rem = if pre >= l { 0 } else { l - pre };
            assert!(it.len() == rem);
            if sym::bool() {
                let x = it.nth(n);
                if n >= rem { assert!(x.is_none()); assert!(it.len() == 0 && it.next().is_none() && it.next_back().is_none()); }
                else { assert!(x == Some(b.bit(pre + n))); assert!(it.len() == rem - n - 1); }
            } else {
                let x = it.nth_back(n);
                if n >= rem { assert!(x.is_none()); assert!(it.len() == 0 && it.next().is_none() && it.next_back().is_none()); }
                else { assert!(x == Some(b.bit(l - 1 - n))); assert!(it.len() == rem - n - 1); }
            }
        }
        1 => {
            let ones = b.ones();
            let mut it = bv.one_iter();
            let mut k = 0; while k < 3 { if k < pre { let _ = it.next(); } k += 1; }
            let rem = if pre >= ones { 0 } else { ones - pre };
            assert!(it.len() == rem);
            let x = it.nth(n);
            if n >= rem { assert!(x.is_none()); assert!(it.len() == 0 && it.next().is_none() && it.next_back().is_none()); }
            else { let (r, p) = x.unwrap(); assert!(r == pre + n && b.is_select(r, p)); assert!(it.len() == rem - n - 1); }
        }
        _ => {
            let zeros = l - b.ones();
            let mut it = bv.zero_iter();
            let mut k = 0; while k < 3 { if k < pre { let _ = it.next(); } k += 1; }
            let rem = if pre >= zeros { 0 } else { zeros - pre };
            assert!(it.len() == rem);
            let x = it.nth(n);
            if n >= rem { assert!(x.is_none()); assert!(it.len() == 0 && it.next().is_none() && it.next_back().is_none()); }
            else { let (r, p) = x.unwrap(); assert!(r == pre + n && b.is_select_zero(r, p)); assert!(it.len() == rem - n - 1); }
        }
    }
}

/// AccessIter over an IntVector: nth / nth_back over all usize after a consumed prefix.
pub fn access_iter_nth(w: usize, len: usize) {
    let (v, m) = any_int(w, len);
    let pre = sym::usize_in(0, 2);
    let n = sym::usize();
    let mut it = v.iter();
    let mut k = 0; while k < 2 { if k < pre { let _ = it.next(); } k += 1; }
    let rem = if pre >= len { 0 } else { len - pre };
    assert!(it.len() == rem);
    if sym::bool() {
        let x = it.nth(n);
        if n >= rem { assert!(x.is_none() && it.len() == 0 && it.next().is_none()); }
        else { assert!(x == Some(m[pre + n]) && it.len() == rem - n - 1); }
    } else {
        let x = it.nth_back(n);
        if n >= rem { assert!(x.is_none() && it.len() == 0 && it.next_back().is_none()); }
        else { assert!(x == Some(m[len - 1 - n]) && it.len() == rem - n - 1); }
    }
    let j = sym::usize(); let d = sym::u64();
    assert!(v.get_or(j, d) == if j < len { m[j] } else { d });
}

/// Constructors reject invalid sizes with an error (no panic): all usize arguments.
pub fn ctor_errors() {
    let w = sym::usize();
    sym::assume(w == 0 || w > 64);
    assert!(IntVector::new(w).is_err());
    assert!(IntVector::with_capacity(sym::usize(), w).is_err());
    assert!(IntVector::with_len(sym::usize(), w, sym::u64()).is_err());
    let u = sym::usize(); let o = sym::usize();
    sym::assume(o > u);
    assert!(SparseBuilder::new(u, o).is_err());
}

/// RLBuilder::try_set: a run that would pass the maximum length, or that starts before the
/// current length, is refused with Err (all usize), and accepted otherwise.
pub fn rl_try_set() {
    let mut b = RLBuilder::new();
    let s0 = sym::usize(); let l0 = sym::usize();
    let r0 = b.try_set(s0, l0);
    let ok0 = usize::MAX - l0 >= s0;
    assert!(r0.is_ok() == ok0);
    std::mem::forget(r0);
    if ok0 {
        assert!(b.len() == if l0 == 0 { 0 } else { s0 + l0 });
        assert!(b.count_ones() == l0);
        let s1 = sym::usize(); let l1 = sym::usize();
        let before = (b.len(), b.count_ones());
        let r1 = b.try_set(s1, l1);
        let ok1 = s1 >= before.0 && usize::MAX - l1 >= s1;
        assert!(r1.is_ok() == ok1);
        std::mem::forget(r1);
        if !ok1 { assert!(b.len() == before.0 && b.count_ones() == before.1); }
    }
}
