//! Reference definitions over a concrete number of symbolic words.
pub const OW: usize = 24;

#[derive(Clone, Copy)]
pub struct Bits { pub len: usize, pub w: [u64; OW] }

impl Bits {
    pub fn words(&self) -> usize { (self.len + 63) / 64 }
    pub fn bit(&self, i: usize) -> bool { (self.w[i >> 6] >> (i & 63)) & 1 == 1 }
    pub fn ones(&self) -> usize {
        let mut k = 0; let mut r = 0usize;
        while k < OW { r += self.w[k].count_ones() as usize; k += 1; }
        r
    }
    /// Number of set bits in positions < i (i clamped to len).
    pub fn rank(&self, i: usize) -> usize {
        let i = if i > self.len { self.len } else { i };
        let mut k = 0; let mut r = 0usize;
        while k < OW {
            let lo = k * 64;
            if i >= lo + 64 { r += self.w[k].count_ones() as usize; }
            else if i > lo { r += (self.w[k] & ((1u64 << (i - lo)) - 1)).count_ones() as usize; }
            k += 1;
        }
        r
    }
    pub fn rank_zero(&self, i: usize) -> usize {
        let i = if i > self.len { self.len } else { i };
        i - self.rank(i)
    }
    /// `p` is the position of the set bit of rank `r`.
    pub fn is_select(&self, r: usize, p: usize) -> bool { p < self.len && self.bit(p) && self.rank(p) == r }
    pub fn is_select_zero(&self, r: usize, p: usize) -> bool { p < self.len && !self.bit(p) && self.rank_zero(p) == r }
}
