//! C10 — every iterator yields the reference sequence under any interleaving of calls.
//! A driver performs K calls whose kinds (and nth arguments, over all usize) are symbolic and
//! tracks the reference window [front, back); `ok(i, item)` says whether `item` is the i-th
//! element of the reference sequence.
use crate::sym;
use crate::oracle::Bits;
use crate::c01::any_bits;
use crate::c05::any_int;
use simple_sds::bit_vector::BitVector;
use simple_sds::ops::{BitVec, Select, SelectZero, Access, Vector, VectorIndex};

/// Double-ended, exact-size iterators: next, next_back, nth(n), nth_back(n), len.
pub fn drive_de<I, F>(mut it: I, total: usize, k: usize, ok: F)
where I: DoubleEndedIterator + ExactSizeIterator, F: Fn(usize, &I::Item) -> bool {
    let mut f = 0usize; let mut e = total;
    let mut step = 0;
    while step < k {
        assert!(it.len() == e - f);
        let op = sym::u8();
        if op == 0 {
            match it.next() { None => assert!(f == e), Some(x) => { assert!(f < e && ok(f, &x)); f += 1; } }
        } else if op == 1 {
            match it.next_back() { None => assert!(f == e), Some(x) => { assert!(f < e && ok(e - 1, &x)); e -= 1; } }
        } else if op == 2 {
            let n = sym::usize();
            match it.nth(n) { None => { assert!(n >= e - f); f = e; } Some(x) => { assert!(n < e - f && ok(f + n, &x)); f += n + 1; } }
        } else {
            let n = sym::usize();
            match it.nth_back(n) { None => { assert!(n >= e - f); e = f; } Some(x) => { assert!(n < e - f && ok(e - 1 - n, &x)); e -= n + 1; } }
        }
        step += 1;
    }
    assert!(it.len() == e - f);
    if f == e { assert!(it.next().is_none() && it.next_back().is_none() && it.next().is_none()); }
}

/// Forward-only exact-size iterators: next, nth(n), len.
pub fn drive_fwd<I, F>(mut it: I, total: usize, k: usize, ok: F)
where I: ExactSizeIterator, F: Fn(usize, &I::Item) -> bool {
    let mut f = 0usize;
    let mut step = 0;
    while step < k {
        assert!(it.len() == total - f);
        if sym::bool() {
            match it.next() { None => assert!(f == total), Some(x) => { assert!(f < total && ok(f, &x)); f += 1; } }
        } else {
            let n = sym::usize();
            match it.nth(n) { None => { assert!(n >= total - f); f = total; } Some(x) => { assert!(n < total - f && ok(f + n, &x)); f += n + 1; } }
        }
        step += 1;
    }
    if f == total { assert!(it.next().is_none() && it.next().is_none()); }
}

/// Forward-only iterators without an exact size: next, nth(n).
pub fn drive_plain<I, F>(mut it: I, total: usize, k: usize, ok: F)
where I: Iterator, F: Fn(usize, &I::Item) -> bool {
    let mut f = 0usize;
    let mut step = 0;
    while step < k {
        if sym::bool() {
            match it.next() { None => assert!(f == total), Some(x) => { assert!(f < total && ok(f, &x)); f += 1; } }
        } else {
            let n = sym::usize();
            match it.nth(n) { None => { assert!(n >= total - f); f = total; } Some(x) => { assert!(n < total - f && ok(f + n, &x)); f += n + 1; } }
        }
        step += 1;
    }
    if f == total { assert!(it.next().is_none() && it.next().is_none()); }
}

/// BitVector iterators. kind: 0 iter(), 1 one_iter(), 2 zero_iter().
pub fn bitvector(l: usize, k: usize, kind: u8) {
    let (raw, b) = any_bits(l);
    let bv = BitVector::from(raw);
    match kind {
        0 => drive_de(bv.iter(), l, k, |i, x| *x == b.bit(i)),
        1 => drive_de(bv.one_iter(), b.ones(), k, |i, x| x.0 == i && b.is_select(i, x.1)),
        _ => drive_de(bv.zero_iter(), l - b.ones(), k, |i, x| x.0 == i && b.is_select_zero(i, x.1)),
    }
}

/// IntVector iterators. kind: 0 AccessIter (double-ended), 1 IntoIter (forward).
pub fn int_vector(w: usize, n: usize, k: usize, kind: u8) {
    let (v, m) = any_int(w, n);
    match kind {
        0 => drive_de(v.iter(), n, k, |i, x| *x == m[i]),
        _ => drive_fwd(v.into_iter(), n, k, |i, x| *x == m[i]),
    }
}

/// Sparse vector iterators. kind: 0 iter() bits, 1 one_iter(), 2 zero_iter().
pub fn sparse(n: usize, m: usize, w: usize, multiset: bool, k: usize, kind: u8) {
    let r = crate::c02::any_positions(n, m, multiset);
    let v = crate::c02::build(&r, w, multiset);
    match kind {
        0 => drive_de(v.iter(), n, k, |i, x| *x == r.contains(i)),
        1 => drive_de(v.one_iter(), m, k, |i, x| x.0 == i && x.1 == r.p[i]),
        _ => drive_fwd(v.zero_iter(), n - m, k, |i, x| x.0 == i && !r.contains(x.1) && x.1 - r.rank(x.1) == i),
    }
}

/// Run-length vector iterators. kind: 0 run_iter(), 1 one_iter(), 2 zero_iter(), 3 iter() bits.
pub fn rl(units: &[(usize, usize)], sw: usize, trail: bool, k: usize, kind: u8) {
    let (v, runs) = crate::c03::any_rl(units, sw, trail);
    match kind {
        0 => drive_plain(v.run_iter(), runs.r, k, |i, x| *x == (runs.s[i], runs.l[i])),
        1 => drive_fwd(v.one_iter(), runs.ones, k, |i, x| x.0 == i && runs.is_select(i, x.1)),
        2 => drive_fwd(v.zero_iter(), runs.len - runs.ones, k, |i, x| x.0 == i && runs.is_select_zero(i, x.1)),
        _ => drive_fwd(v.iter(), runs.len, k, |i, x| *x == runs.get(i)),
    }
}

/// Wavelet matrix iterators. kind: 0 iter() (AccessIter), 1 into_iter(), 2 value_iter(x).
pub fn wm(n: usize, maxv: u64, fw: usize, k: usize, kind: u8) {
    let (wm, it) = crate::c04::load_wm(n, maxv, fw);
    match kind {
        0 => drive_de(wm.iter(), n, k, |i, x| *x == it.v[i]),
        1 => drive_fwd(wm.into_iter(), n, k, |i, x| *x == it.v[i]),
        _ => { let x = sym::u64(); let c = it.count(x); drive_plain(wm.value_iter(x), c, k, |i, item| item.0 == i && it.is_select(i, x, item.1)) }
    }
}
