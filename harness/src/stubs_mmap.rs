#![cfg(kani)]
//! The file-system half of the OS model behind `MemoryMap::new` (C13, C18). `std::fs` is
//! replaced by Kani stubs (this file); `mmap/munmap/close` come from `models/mmap_model.c`,
//! linked into the GOTO program. Exists only under Kani: native replay uses a real file.
//!
//! Contracts of the stubs (each at least as permissive as the std function it replaces):
//! * `OpenOptions::read/write`: record the flag, return `self`.
//! * `OpenOptions::open`: fails (ENOENT-like simple error) iff the harness said the file cannot
//!   be opened in the requested mode; otherwise returns a `File` owning descriptor `FD` and tells
//!   the model that a descriptor is open. Which flags were in force is recorded.
//! * `File::metadata`: always succeeds (fstat on an open regular file); the value is opaque and is
//!   only consumed by the `Metadata::len` stub.
//! * `Metadata::len`: the model's file length in bytes.
//!
//! ALL state lives in the C model, none in Rust `static mut`s: kani-compiler 0.68 was observed to
//! alias a zero-initialised `static mut X: usize` with rustc's interned all-zero constant
//! allocation (`alloc::raw_vec::ZERO_CAP` read the static, so `Vec::new()` had capacity 1 after
//! the first `X += 1`).
use std::fs::{File, Metadata, OpenOptions};
use std::io;
use std::path::Path;

pub const FD: i32 = 3;

/// `models/mmap_model.c`. Every function returns a value (a Rust `-> ()` foreign function is
/// declared with a unit-struct return type by Kani and does not link against C `void`).
pub mod ffi {
    extern "C" {
        pub fn kv_file_create(cap_bytes: usize, len_bytes: usize) -> i32;
        pub fn kv_file_set_len(len_bytes: usize) -> i32;
        pub fn kv_file_len() -> usize;
        pub fn kv_file_set_word(i: usize, v: u64) -> i32;
        pub fn kv_file_get_word(i: usize) -> u64;
        pub fn kv_set_refuse(r: i32) -> i32;
        pub fn kv_set_open_fails(f: i32) -> i32;
        pub fn kv_opt_set_read(v: i32) -> i32;
        pub fn kv_opt_set_write(v: i32) -> i32;
        pub fn kv_open() -> i32;
        pub fn kv_new_cycle() -> i32;
        pub fn kv_get_open_calls() -> i32;
        pub fn kv_get_opened_read() -> i32;
        pub fn kv_get_opened_write() -> i32;
        pub fn kv_get_mmap_calls() -> i32;
        pub fn kv_get_mmap_ok() -> i32;
        pub fn kv_get_mmap_len() -> usize;
        pub fn kv_get_mmap_prot() -> i32;
        pub fn kv_get_mmap_flags() -> i32;
        pub fn kv_get_mmap_fd() -> i32;
        pub fn kv_get_mmap_off() -> i64;
        pub fn kv_get_mmap_addr_is_null() -> i32;
        pub fn kv_get_mmap_oversize() -> i32;
        pub fn kv_get_mapped_mask() -> u32;
        pub fn kv_get_munmap_calls() -> i32;
        pub fn kv_get_munmap_foreign() -> i32;
        pub fn kv_get_munmap_len() -> usize;
        pub fn kv_get_fd_open() -> i32;
        pub fn kv_get_close_calls() -> i32;
        pub fn kv_get_close_fd() -> i32;
    }
}

pub fn oo_read(o: &mut OpenOptions, v: bool) -> &mut OpenOptions {
    unsafe { ffi::kv_opt_set_read(v as i32); }
    o
}

pub fn oo_write(o: &mut OpenOptions, v: bool) -> &mut OpenOptions {
    unsafe { ffi::kv_opt_set_write(v as i32); }
    o
}

pub fn oo_open<P: AsRef<Path>>(_o: &OpenOptions, _path: P) -> io::Result<File> {
    unsafe {
        if ffi::kv_open() != 0 {
            return Err(io::Error::from(io::ErrorKind::NotFound));
        }
        Ok(std::os::fd::FromRawFd::from_raw_fd(FD))
    }
}

pub fn file_metadata(_f: &File) -> io::Result<Metadata> {
    Ok(unsafe { std::mem::MaybeUninit::<Metadata>::zeroed().assume_init() })
}

pub fn metadata_len(_m: &Metadata) -> u64 {
    unsafe { ffi::kv_file_len() as u64 }
}
