//! Allocation-policy stubs (DESIGN §3 R2). They keep the semantics of the std
//! functions they replace but never reallocate with a symbolic size: a vector
//! that has no buffer yet gets one of fixed capacity `FIXED_CAP` items; a push
//! into a full buffer is an *assertion failure of the stub* (reported as
//! inconclusive by the runner because it cannot reproduce natively), so
//! "the fixed capacity suffices" is checked, never assumed.
#![cfg(kani)]
use std::alloc::Allocator;

pub const FIXED_CAP: usize = 16;

pub fn vec_push_nogrow<T, A: Allocator>(v: &mut Vec<T, A>, value: T) {
    if v.capacity() == 0 {
        v.reserve_exact(FIXED_CAP);
    }
    let len = v.len();
    assert!(len < v.capacity(), "stub: fixed capacity exceeded in Vec::push");
    unsafe {
        std::ptr::write(v.as_mut_ptr().add(len), value);
        v.set_len(len + 1);
    }
}

pub fn vec_reserve_nogrow<T, A: Allocator>(v: &mut Vec<T, A>, additional: usize) {
    if v.capacity() == 0 {
        v.reserve_exact(FIXED_CAP);
    }
    assert!(v.capacity() - v.len() >= additional, "stub: fixed capacity exceeded in Vec::reserve");
}

/// `Vec::resize` without `extend_with`'s reserve path.
pub fn vec_resize_nogrow<T: Clone, A: Allocator>(v: &mut Vec<T, A>, new_len: usize, value: T) {
    if v.capacity() == 0 {
        v.reserve_exact(FIXED_CAP);
    }
    let len = v.len();
    if new_len <= len {
        v.truncate(new_len);
    } else {
        assert!(new_len <= v.capacity(), "stub: fixed capacity exceeded in Vec::resize");
        let mut i = len;
        while i < new_len {
            unsafe { std::ptr::write(v.as_mut_ptr().add(i), value.clone()); }
            i += 1;
        }
        unsafe { v.set_len(new_len); }
    }
}

use simple_sds::raw_vector::RawVector;
pub const FIXED_BITS: usize = 64 * FIXED_CAP;

/// `RawVector::with_capacity(c)`: capacity is not observable through content; allocate a fixed one.
pub fn rawvec_with_capacity_fixed(_capacity: usize) -> RawVector {
    let mut v = RawVector::with_len(FIXED_BITS, false);
    v.clear();
    v
}
pub fn rawvec_new_fixed() -> RawVector {
    let mut v = RawVector::with_len(FIXED_BITS, false);
    v.clear();
    v
}
/// `RawVector::reserve`: the fixed buffer must already suffice (asserted).
pub fn rawvec_reserve_fixed(v: &mut RawVector, additional: usize) {
    assert!(v.len() <= FIXED_BITS && additional <= FIXED_BITS - v.len(), "stub: fixed capacity exceeded in RawVector::reserve");
}

// R4: forced "long superblock" regime. The first call of bits::bit_len after `reset_regime()`
// (in SelectSupport::new it computes the log^4 threshold) returns 0, so every superblock takes
// the explicit-offset ("long") path; later calls (IntVector::pack) are exact. Instances without
// this stub run the real rule, which is the block-sample ("short") path for vectors this small.
// Answers must not depend on the regime.
// (initialised non-zero: kani-compiler 0.68 may alias zero-initialised statics with interned zero constants)
static mut BIT_LEN_CALLS: usize = 0x0B17_0000;
pub fn reset_regime() { unsafe { BIT_LEN_CALLS = 0x0B17_0000; } }
pub fn bit_len_force_long(n: u64) -> usize {
    let real = 64 - ((n | 1).leading_zeros() as usize);
    unsafe {
        BIT_LEN_CALLS += 1;
        if BIT_LEN_CALLS == 0x0B17_0001 { return 0; }
    }
    real
}

// UTF-8 validation (word-at-a-time scan over an aligned pointer) explodes under CBMC. Content is
// restricted to ASCII (stated in the evidence): the stubs accept exactly ASCII input and cut
// every other path, which is outside the claim.
pub fn string_from_utf8_ascii(bytes: Vec<u8>) -> Result<String, std::string::FromUtf8Error> {
    let mut i = 0;
    while i < bytes.len() { kani::assume(bytes[i] < 128); i += 1; }
    Ok(unsafe { String::from_utf8_unchecked(bytes) })
}
pub fn str_from_utf8_ascii(bytes: &[u8]) -> Result<&str, std::str::Utf8Error> {
    let mut i = 0;
    while i < bytes.len() { kani::assume(bytes[i] < 128); i += 1; }
    Ok(unsafe { std::str::from_utf8_unchecked(bytes) })
}

// SparseBuilder::get_params evaluates ln/log2/round on f64, which the SAT back end cannot
// bit-blast. The low-part width the REAL rule picks for the instance's (universe, ones) is
// computed natively from /repo at generation time (kvlib/native.py) and passed to the template,
// which stores it here; buckets = ceil(universe / 2^w) as the format document says.
const SPARSE_TAG: usize = 0x59A2_0000; // unique initial bytes, see the NOTE in stubs_bv.rs
static mut SPARSE_W: usize = SPARSE_TAG + 1;
pub fn set_sparse_width(w: usize) { unsafe { SPARSE_W = SPARSE_TAG + w; } }
pub fn sparse_get_params(universe: usize, ones: usize) -> (usize, usize) {
    let w = unsafe { SPARSE_W } - SPARSE_TAG;
    let mut buckets = if w < 64 { universe >> w } else { 0 };
    let mask = if w < 64 { (1usize << w) - 1 } else { !0usize };
    if universe & mask != 0 { buckets += 1; }
    (w, ones + buckets)
}

// Error messages built with format!() drag the whole fmt machinery into the formula; their text is
// never the subject of a property. (Guidance: stub alloc::fmt::format.)
pub fn fmt_format_empty(_args: std::fmt::Arguments<'_>) -> String { String::new() }

// SampleIndex::parameters(values, universe) = (s2, d) with s1 = ceil(values/8), d = ceil(universe/s1),
// s2 = ceil(universe/d). Its symbolic 64-bit divisions feed `IntVector::with_len(s2, ..)`, a
// symbolic allocation size. Closed form for values <= 16 (universe > 0 is the caller's guard):
//   values <= 8 : s1 = 1, d = universe, s2 = 1
//   values <= 16: s1 = 2, d = ceil(universe/2), s2 = ceil(universe/d) = 1 if universe == 1 else 2
pub fn sample_index_parameters(values: usize, universe: usize) -> (usize, usize) {
    assert!(values >= 1 && values <= 16 && universe >= 1, "stub: SampleIndex::parameters closed form only covers 1..=16 values");
    if values <= 8 { (1, universe) } else {
        let d = universe / 2 + universe % 2;
        (if universe == 1 { 1 } else { 2 }, d)
    }
}

/// Same closed form restricted to at most 8 values (one sample): the result is concrete in its
/// first component, so the loops of SampleIndex::new fold.
pub fn sample_index_parameters_le8(values: usize, universe: usize) -> (usize, usize) {
    assert!(values >= 1 && values <= 8 && universe >= 1, "stub: SampleIndex::parameters closed form (<= 8 values)");
    (1, universe)
}

// R3 contract stub for SampleIndex::new (at most 8 values): the real function then asserts only
// that the first value is 0 (its other checks run inside a loop that needs >= 9 values) and
// builds an index whose range() admits every block; the stub asserts the same and returns the
// widest admissible index through the cfg(simple_sds_verif) hook. SampleIndex::new/range
// themselves are verified in their own family (c03_sample_index_*).
pub fn sample_index_new_contract<T: Iterator<Item = usize> + ExactSizeIterator>(iter: T, universe: usize) -> simple_sds::rl_vector::index::SampleIndex {
    let mut iter = iter;
    let n = iter.len();
    assert!(n <= 8, "stub: SampleIndex::new contract stub only covers <= 8 values");
    if n == 0 || universe == 0 {
        return simple_sds::rl_vector::index::SampleIndex::verif_widest(0);
    }
    let first = iter.next().unwrap();
    assert!(first == 0, "SampleIndex::new(): The initial value must be 0");
    simple_sds::rl_vector::index::SampleIndex::verif_widest(n)
}

// C11: conversions size the target from `count_ones()` of the source. For a BitVector source that
// is the popcount of symbolic words, i.e. a symbolic allocation size in the target's builder.
// The instance fixes the number of set bits: the stub returns that constant and cuts every
// path on which the real popcount differs (those bit patterns belong to other instances).
const ONES_TAG: usize = 0x0E5_0000;
static mut FIXED_ONES: usize = ONES_TAG;
pub fn set_fixed_ones(m: usize) { unsafe { FIXED_ONES = ONES_TAG + m; } }
pub fn rawvec_count_ones_fixed(v: &RawVector) -> usize {
    let words: &[u64] = v.as_ref();
    let mut real = 0usize; let mut k = 0;
    while k < 4 { if k < words.len() { real += words[k].count_ones() as usize; } k += 1; }
    assert!(words.len() <= 4, "stub: count_ones_fixed covers at most 256 bits");
    if words.len() == 0 { return 0; }   // e.g. the placeholder BitVector inside a SparseBuilder
    let m = unsafe { FIXED_ONES } - ONES_TAG;
    kani::assume(real == m);
    m
}
