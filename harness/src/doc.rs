//! An independent codec written from SERIALIZATION.md only (no call into simple-sds):
//! plain loops over u64 elements. Used as the oracle for C07 (both directions) and as the
//! source of wavelet matrices / run-length vectors / sparse vectors obtained by `load` (R8).
//!
//! Document readings (each listed in the evidence of C07):
//!  * element = little-endian u64; vectors = length element + items; bytes padded with 0 to 8.
//!  * raw bitvector = bit length, then a vector of elements (its length element included).
//!  * integer vector = length, width, raw bitvector of length*width bits.
//!  * bitvector = number of set bits, raw bitvector, three optional supports (absent = one 0 element).
//!  * sparse = length, high bitvector (ones then a 0 per bucket, ceil(n/2^w) buckets), low int vector.
//!  * run-length = length, ones, samples (int vector, minimal width, (ones, bits) per block),
//!    data (int vector of width 4): per run (gap, len-1) in 3-bit little-endian units with a
//!    continuation flag; whole runs per 64-unit block; zero padding; no padding in the last block.
//!  * wavelet matrix core = width, then one bitvector per level; plain = length, core, first[].

pub const DCAP: usize = 64;

#[derive(Clone, Copy)]
pub struct Doc { pub e: [u64; DCAP], pub n: usize }

impl Doc {
    pub fn new() -> Doc { Doc { e: [0; DCAP], n: 0 } }
    pub fn push(&mut self, x: u64) { self.e[self.n] = x; self.n += 1; }
    pub fn bytes(&self) -> [u8; 8 * DCAP] {
        let mut b = [0u8; 8 * DCAP];
        let mut i = 0;
        while i < DCAP {
            let x = self.e[i];
            let mut j = 0;
            while j < 8 { b[8 * i + j] = (x >> (8 * j)) as u8; j += 1; }
            i += 1;
        }
        b
    }
    pub fn from_bytes(b: &[u8], nbytes: usize) -> Doc {
        let mut d = Doc::new();
        let mut i = 0;
        while i < DCAP {
            if 8 * i < nbytes {
                let mut x = 0u64; let mut j = 0;
                while j < 8 { x |= (b[8 * i + j] as u64) << (8 * j); j += 1; }
                d.e[i] = x;
            }
            i += 1;
        }
        d.n = nbytes / 8;
        d
    }

    /// Raw bitvector of `len` bits held in `w` (unused bits must already be 0).
    pub fn raw(&mut self, len: usize, w: &[u64]) {
        let words = (len + 63) / 64;
        self.push(len as u64);
        self.push(words as u64);
        let mut k = 0;
        while k < words { self.push(w[k]); k += 1; }
    }

    /// Integer vector: `count` items of `width` bits (items already < 2^width).
    pub fn int_vector(&mut self, items: &[u64], count: usize, width: usize) {
        self.push(count as u64);
        self.push(width as u64);
        let bits = count * width;
        let words = (bits + 63) / 64;
        let mut w = [0u64; 8];
        let mut i = 0;
        while i < count {
            let off = i * width; let k = off >> 6; let sh = off & 63;
            w[k] |= items[i] << sh;
            if sh + width > 64 { w[k + 1] |= items[i] >> (64 - sh); }
            i += 1;
        }
        self.raw(bits, &w[..words.max(0)]);
    }

    /// Plain bitvector without support structures.
    pub fn bitvector(&mut self, len: usize, w: &[u64]) {
        let words = (len + 63) / 64;
        let mut ones = 0u64; let mut k = 0;
        while k < words { ones += w[k].count_ones() as u64; k += 1; }
        self.push(ones);
        self.raw(len, w);
        self.push(0); self.push(0); self.push(0);
    }
}

fn set_bit(w: &mut [u64], i: usize) { w[i >> 6] |= 1u64 << (i & 63); }

/// Sparse bitvector of length `n` with sorted positions p[0..m], low width `lw` (1..=63).
pub fn enc_sparse(d: &mut Doc, n: usize, p: &[usize], m: usize, lw: usize) {
    d.push(n as u64);
    let buckets = (n >> lw) + (if n & ((1usize << lw) - 1) != 0 { 1 } else { 0 });
    let hlen = m + buckets;
    let mut high = [0u64; 4];
    let mut low = [0u64; 32];
    let mut i = 0;
    while i < m {
        set_bit(&mut high, (p[i] >> lw) + i);
        low[i] = (p[i] & ((1usize << lw) - 1)) as u64;
        i += 1;
    }
    d.bitvector(hlen, &high);
    d.int_vector(&low, m, lw);
}

pub fn bit_len(x: u64) -> usize { let mut l = 1; while l < 64 && (x >> l) != 0 { l += 1; } l }

/// Number of 3-bit code units of a value.
pub fn code_len(x: u64) -> usize { (bit_len(x) + 2) / 3 }

/// Run-length encoded bitvector: `runs` = maximal runs (start, len), sorted, separated by >= 1
/// unset bit; `units[i]` = (code units of gap_i, code units of len_i-1) must be the true code
/// lengths (asserted by the caller through assume); `sw` = width of the samples vector.
/// Returns (blocks, total units) — both concrete when `units` is.
pub fn enc_rl(d: &mut Doc, len: usize, runs: &[(usize, usize)], r: usize, units: &[(usize, usize)], sw: usize) -> (usize, usize) {
    let mut data = [0u64; 192];
    let mut nd = 0usize;         // code units written
    let mut blocks = 0usize;
    let mut samples = [0u64; 12];
    let mut tail = 0usize; let mut ones = 0usize;
    let mut i = 0;
    while i < r {
        let need = units[i].0 + units[i].1;
        if nd + need > blocks * 64 {
            nd = blocks * 64;                     // zero padding up to the block boundary
            samples[2 * blocks] = ones as u64;
            samples[2 * blocks + 1] = tail as u64;
            blocks += 1;
        }
        let mut v = (runs[i].0 - tail) as u64;
        let mut k = 0;
        while k < units[i].0 { data[nd] = (v & 7) | (if k + 1 < units[i].0 { 8 } else { 0 }); v >>= 3; nd += 1; k += 1; }
        let mut v = (runs[i].1 - 1) as u64;
        let mut k = 0;
        while k < units[i].1 { data[nd] = (v & 7) | (if k + 1 < units[i].1 { 8 } else { 0 }); v >>= 3; nd += 1; k += 1; }
        tail = runs[i].0 + runs[i].1;
        ones += runs[i].1;
        i += 1;
    }
    d.push(len as u64);
    d.push(ones as u64);
    d.int_vector(&samples, 2 * blocks, sw);
    // data: int vector of width 4
    d.push(nd as u64); d.push(4);
    let bits = nd * 4; let words = (bits + 63) / 64;
    let mut w = [0u64; 12];
    let mut j = 0;
    while j < nd { w[j >> 4] |= data[j] << ((j & 15) * 4); j += 1; }
    d.raw(bits, &w[..words]);
    (blocks, nd)
}

/// Wavelet matrix core of `n` items of `width` bits: level l holds bit (width-1-l) of the
/// items in the order produced by stably partitioning (zeros first) on all earlier levels.
/// Returns the fully reordered items (the order below the last level).
pub fn enc_wmcore(d: &mut Doc, items: &[u64], n: usize, width: usize) -> [u64; 8] {
    let mut cur = [0u64; 8];
    let mut i = 0; while i < n { cur[i] = items[i]; i += 1; }
    d.push(width as u64);
    let mut level = 0;
    while level < width {
        let bitv = 1u64 << (width - 1 - level);
        let mut bits = [0u64; 1];
        let mut next = [0u64; 8];
        let mut z = 0; let mut i = 0;
        while i < n { if cur[i] & bitv == 0 { next[z] = cur[i]; z += 1; } else { bits[0] |= 1u64 << i; } i += 1; }
        let mut i = 0;
        while i < n { if cur[i] & bitv != 0 { next[z] = cur[i]; z += 1; } i += 1; }
        d.bitvector(n, &bits);
        cur = next;
        level += 1;
    }
    cur
}

/// first[v] for v in 0..sigma: position of the first occurrence of v in the reordered vector,
/// or n if v does not occur.
pub fn first_of(reordered: &[u64; 8], n: usize, sigma: usize) -> [u64; 16] {
    let mut f = [0u64; 16];
    let mut v = 0;
    while v < sigma {
        let mut pos = n as u64; let mut i = n;
        while i > 0 { i -= 1; if reordered[i] == v as u64 { pos = i as u64; } }
        f[v] = pos;
        v += 1;
    }
    f
}

/// Plain wavelet matrix; `fw` = width of first[] (must be the minimal width: asserted by the caller).
pub fn enc_wm(d: &mut Doc, items: &[u64], n: usize, width: usize, sigma: usize, fw: usize) -> [u64; 8] {
    d.push(n as u64);
    let re = enc_wmcore(d, items, n, width);
    let f = first_of(&re, n, sigma);
    d.int_vector(&f, sigma, fw);
    re
}

/// A reader over the elements of a Doc that fills the destination byte by byte (concrete
/// indices; no memcpy of a byte array, which CBMC encodes through expensive array operations).
pub struct Reader<'a> { pub d: &'a Doc, pub pos: usize, pub limit: usize }

impl<'a> Reader<'a> {
    pub fn new(d: &'a Doc) -> Reader<'a> { Reader { d, pos: 0, limit: 8 * d.n } }
    pub fn with_limit(d: &'a Doc, limit: usize) -> Reader<'a> { Reader { d, pos: 0, limit } }
    pub fn remaining(&self) -> usize { self.limit - self.pos }
}

impl<'a> std::io::Read for Reader<'a> {
    fn read(&mut self, buf: &mut [u8]) -> std::io::Result<usize> {
        let avail = self.limit - self.pos;
        let n = if buf.len() < avail { buf.len() } else { avail };
        let mut i = 0;
        while i < n {
            let p = self.pos + i;
            buf[i] = (self.d.e[p >> 3] >> (8 * (p & 7))) as u8;
            i += 1;
        }
        self.pos += n;
        Ok(n)
    }
}
