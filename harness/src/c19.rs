//! C19 — support structures are optional, rebuildable and never change answers.
use crate::sym;
use crate::c01::any_bits;
use simple_sds::bit_vector::BitVector;
use simple_sds::serialize::{self, Serialize};
use simple_sds::ops::{BitVec, Rank, Select, SelectZero, PredSucc};

pub const BUF: usize = 560;

fn enable(bv: &mut BitVector, which: u8) {
    match which { 0 => bv.enable_rank(), 1 => bv.enable_select(), _ => bv.enable_select_zero() }
}

const ORDERS: [[u8; 3]; 6] = [[0, 1, 2], [0, 2, 1], [1, 0, 2], [1, 2, 0], [2, 0, 1], [2, 1, 0]];

/// Write with the support subset `mask` (1 rank, 2 select, 4 select_zero); load; the loaded
/// value reports exactly that subset and equals the original; enabling the rest in `order`
/// yields the fully enabled original; enabling again is a no-op; bits unchanged.
pub fn supports(l: usize, mask: u8, order: usize) {
    let (raw, b) = any_bits(l);
    let mut bv = BitVector::from(raw);
    if mask & 1 != 0 { bv.enable_rank(); }
    if mask & 2 != 0 { bv.enable_select(); }
    if mask & 4 != 0 { bv.enable_select_zero(); }
    let mut buf = [0x3Cu8; BUF];
    let size = bv.size_in_bytes();
    assert!(size <= BUF && size == 8 * bv.size_in_elements());
    let left = { let mut w: &mut [u8] = &mut buf; bv.serialize(&mut w).unwrap(); w.len() };
    assert!(BUF - left == size);
    let mut r: &[u8] = &buf[..];
    let mut y = BitVector::load(&mut r).unwrap();
    assert!(BUF - r.len() == size);
    assert!(y.supports_rank() == (mask & 1 != 0));
    assert!(y.supports_select() == (mask & 2 != 0));
    assert!(y.supports_select_zero() == (mask & 4 != 0));
    assert!(y.supports_pred_succ() == (mask & 3 == 3));
    assert!(y == bv);
    // enable everything on the loaded copy in the given order, and on the original in fixed order
    let ord = ORDERS[order];
    enable(&mut y, ord[0]); enable(&mut y, ord[1]); enable(&mut y, ord[2]);
    bv.enable_rank(); bv.enable_select(); bv.enable_select_zero();
    assert!(y.supports_rank() && y.supports_select() && y.supports_select_zero() && y.supports_pred_succ());
    assert!(y == bv);
    // idempotent
    let z = y.clone();
    y.enable_pred_succ(); y.enable_select_zero(); y.enable_rank(); y.enable_select();
    assert!(y == z);
    // bits and counts unchanged
    assert!(y.len() == l && y.count_ones() == b.ones());
    let i = sym::usize();
    if i < l { assert!(y.get(i) == b.bit(i)); }
    // fully enabled serialization has the predicted size and round-trips
    let size2 = y.size_in_bytes();
    assert!(size2 <= BUF);
    let mut buf2 = [0u8; BUF];
    let left2 = { let mut w: &mut [u8] = &mut buf2; y.serialize(&mut w).unwrap(); w.len() };
    assert!(BUF - left2 == size2);
}

/// skip_option moves the reader exactly past an optional support structure, whatever it holds:
/// a BitVector written with rank support, read field by field with the supports skipped.
pub fn skip_supports(l: usize, mask: u8) {
    let (raw, b) = any_bits(l);
    let mut bv = BitVector::from(raw.clone());
    if mask & 1 != 0 { bv.enable_rank(); }
    if mask & 2 != 0 { bv.enable_select(); }
    if mask & 4 != 0 { bv.enable_select_zero(); }
    let tail = sym::u64();
    let mut buf = [0u8; BUF];
    let size = bv.size_in_bytes();
    assert!(size + 8 <= BUF);
    { let mut w: &mut [u8] = &mut buf; bv.serialize(&mut w).unwrap(); tail.serialize(&mut w).unwrap(); }
    let mut r: &[u8] = &buf[..size + 8];
    let ones = usize::load(&mut r).unwrap();
    let data = simple_sds::raw_vector::RawVector::load(&mut r).unwrap();
    assert!(ones == b.ones() && data == raw);
    assert!(serialize::skip_option(&mut r).is_ok());
    assert!(serialize::skip_option(&mut r).is_ok());
    assert!(serialize::skip_option(&mut r).is_ok());
    assert!(r.len() == 8);
    assert!(u64::load(&mut r).unwrap() == tail);
}

/// Rank support only (its size is concrete): written or not, loaded, enabled, idempotent, and the
/// rank answers are exact on the loaded copy — for vectors up to several blocks.
pub const RB: usize = 192;
pub fn rank_support(l: usize, written: bool) {
    let (raw, b) = any_bits(l);
    let mut bv = BitVector::from(raw);
    if written { bv.enable_rank(); }
    let mut buf = [0x3Cu8; RB];
    let size = bv.size_in_bytes();
    assert!(size <= RB && size == 8 * bv.size_in_elements());
    let left = { let mut w: &mut [u8] = &mut buf; bv.serialize(&mut w).unwrap(); w.len() };
    assert!(RB - left == size);
    let mut r: &[u8] = &buf[..];
    let mut y = BitVector::load(&mut r).unwrap();
    assert!(RB - r.len() == size);
    assert!(y.supports_rank() == written && !y.supports_select() && !y.supports_select_zero());
    assert!(y == bv);
    y.enable_rank(); bv.enable_rank();
    assert!(y.supports_rank() && y == bv);
    let z = y.clone(); y.enable_rank(); assert!(y == z);
    let i = sym::usize();
    assert!(y.rank(i) == b.rank(i));
    if i < l { assert!(y.get(i) == b.bit(i)); }
}

/// Uniform vectors (all bits equal to `value`, concrete length): all three supports are built,
/// written and LOADED (their sizes are concrete here), the loaded copy equals the original and
/// answers select / select_zero / rank for a symbolic argument.
pub fn uniform(l: usize, value: bool, long: bool) {
    crate::c01::set_regime(long);
    let raw = simple_sds::raw_vector::RawVector::with_len(l, value);
    let mut bv = BitVector::from(raw);
    bv.enable_rank(); bv.enable_select(); bv.enable_select_zero();
    let mut buf = [0x3Cu8; BUF];
    let size = bv.size_in_bytes();
    assert!(size <= BUF && size == 8 * bv.size_in_elements());
    let left = { let mut w: &mut [u8] = &mut buf; bv.serialize(&mut w).unwrap(); w.len() };
    assert!(BUF - left == size);
    let mut r: &[u8] = &buf[..];
    let y = BitVector::load(&mut r).unwrap();
    assert!(BUF - r.len() == size);
    assert!(y.supports_rank() && y.supports_select() && y.supports_select_zero());
    assert!(y == bv);
    let i = sym::usize();
    let ones = if value { l } else { 0 };
    assert!(y.rank(i) == if value { if i < l { i } else { l } } else { 0 });
    assert!(y.select(i) == if i < ones { Some(i) } else { None });
    assert!(y.select_zero(i) == if i < l - ones { Some(i) } else { None });
}
