//! C05 — raw and integer vectors as plain sequences: one arbitrary step from an
//! arbitrary valid state of a concrete length, compared word for word with a
//! bit-sequence model.
use crate::sym;
use simple_sds::raw_vector::{RawVector, AccessRaw, PushRaw, PopRaw};
use simple_sds::int_vector::IntVector;
use simple_sds::ops::{Vector, Resize, Pack, Access, Push, Pop};
use simple_sds::serialize::Serialize;
use simple_sds::bits;

pub const MW: usize = 6; // model words (384 bits): pre-state <= 4 words + one 64-bit push + slack

#[derive(Clone, Copy)]
pub struct Model { pub len: usize, pub w: [u64; MW] }

impl Model {
    pub fn bit(&self, i: usize) -> bool { (self.w[i >> 6] >> (i & 63)) & 1 == 1 }
    pub fn set(&mut self, i: usize, b: bool) {
        if b { self.w[i >> 6] |= 1u64 << (i & 63); } else { self.w[i >> 6] &= !(1u64 << (i & 63)); }
    }
    /// Bits [off, off+width) as an integer, bit by bit (width <= 64).
    pub fn int(&self, off: usize, width: usize) -> u64 {
        let mut r = 0u64;
        let mut j = 0;
        while j < 64 {
            if j < width && self.bit(off + j) { r |= 1u64 << j; }
            j += 1;
        }
        r
    }
    pub fn set_int(&mut self, off: usize, v: u64, width: usize) {
        let mut j = 0;
        while j < 64 {
            if j < width { self.set(off + j, (v >> j) & 1 == 1); }
            j += 1;
        }
    }
    /// Clears everything at or beyond `len` (the model of "the vector ends here").
    pub fn truncate(&mut self, len: usize) {
        let mut k = 0;
        while k < MW {
            let lo = k * 64;
            if len <= lo { self.w[k] = 0; }
            else if len < lo + 64 { self.w[k] &= (1u64 << (len - lo)) - 1; }
            k += 1;
        }
        self.len = len;
    }
    pub fn fill(&mut self, from: usize, to: usize, b: bool) {
        let mut k = 0;
        while k < MW {
            let lo = k * 64;
            let mut mask = !0u64;
            if from > lo { mask &= if from - lo >= 64 { 0 } else { !0u64 << (from - lo) }; }
            if to < lo + 64 { mask &= if to <= lo { 0 } else { (1u64 << (to - lo)) - 1 }; }
            if b { self.w[k] |= mask; } else { self.w[k] &= !mask; }
            k += 1;
        }
    }
}

/// An arbitrary valid RawVector of concrete length `l` (<= 256) and its model.
pub fn any_raw(l: usize) -> (RawVector, Model) {
    let mut m = Model { len: l, w: [0; MW] };
    let mut v = RawVector::with_len(l, false);
    let mut k = 0;
    while k * 64 < l {
        let width = if l - k * 64 >= 64 { 64 } else { l - k * 64 };
        let x = sym::u64();
        let x = if width == 64 { x } else { x & ((1u64 << width) - 1) };
        m.w[k] = x;
        unsafe { v.set_int(k * 64, x, width); }
        k += 1;
    }
    (v, m)
}

/// Representation invariant + content: words == model, word count == ceil(len/64).
pub fn check_raw(v: &RawVector, m: &Model) {
    assert!(v.len() == m.len);
    let words: &[u64] = v.as_ref();
    assert!(words.len() == (m.len + 63) / 64);
    let mut k = 0;
    let mut ones = 0usize;
    while k < MW {
        if k < words.len() { assert!(words[k] == m.w[k]); } else { assert!(m.w[k] == 0); }
        ones += m.w[k].count_ones() as usize;
        k += 1;
    }
    assert!(v.count_ones() == ones);
    assert!(v.is_empty() == (m.len == 0));
}

/// One arbitrary operation `op` with arbitrary arguments on an arbitrary valid vector of length `l`.
pub fn raw_step(l: usize, op: u8) {
    let (mut v, mut m) = any_raw(l);
    check_raw(&v, &m);
    match op {
        0 => { // push_bit
            let b = sym::bool();
            v.push_bit(b);
            m.set(l, b); m.len = l + 1;
        }
        1 => { // push_int, width 0..=64
            let w = sym::usize_in(0, 64);
            let x = sym::u64();
            unsafe { v.push_int(x, w); }
            m.set_int(l, x, w); m.len = l + w;
        }
        2 => { // pop_bit
            let r = v.pop_bit();
            if l == 0 { assert!(r.is_none()); }
            else { assert!(r == Some(m.bit(l - 1))); m.truncate(l - 1); }
        }
        3 => { // pop_int
            let w = sym::usize_in(0, 64);
            let r = unsafe { v.pop_int(w) };
            if w > l { assert!(r.is_none()); }
            else { assert!(r == Some(m.int(l - w, w))); m.truncate(l - w); }
        }
        4 => { // set_bit / bit
            let i = sym::usize();
            sym::assume(i < l);
            assert!(v.bit(i) == m.bit(i));
            let b = sym::bool();
            v.set_bit(i, b);
            m.set(i, b);
            assert!(v.bit(i) == b);
        }
        5 => { // set_int / int
            let w = sym::usize_in(0, 64);
            let off = sym::usize();
            sym::assume(w <= l && off <= l - w);
            assert!(unsafe { v.int(off, w) } == m.int(off, w));
            let x = sym::u64();
            unsafe { v.set_int(off, x, w); }
            m.set_int(off, x, w);
            let mask = if w == 64 { !0u64 } else { (1u64 << w) - 1 };
            assert!(unsafe { v.int(off, w) } == x & mask);
        }
        6 => { // resize within [0, l + 128]
            let n = sym::usize_in(0, l + 128);
            let b = sym::bool();
            v.reserve(192); // concrete: the Vec::resize stub asserts that no reallocation is needed
            v.resize(n, b);
            if n > l { m.fill(l, n, b); m.len = n; } else { m.truncate(n); }
        }
        7 => { // clear
            v.clear();
            m.truncate(0);
        }
        8 => { // complement (new vector), original untouched
            let c = v.complement();
            let mut mc = m;
            let mut k = 0;
            while k < MW { mc.w[k] = !mc.w[k]; k += 1; }
            mc.truncate(l);
            check_raw(&c, &mc);
            assert!(c.complement() == v);
        }
        9 => { // word access + clone/eq
            let k = sym::usize();
            sym::assume(k < (l + 63) / 64);
            assert!(v.word(k) == m.w[k]);
            assert!(unsafe { v.word_unchecked(k) } == m.w[k]);
            let c = v.clone();
            assert!(c == v);
        }
        _ => {}
    }
    check_raw(&v, &m);
}

/// Equality / serialization / count_ones do not depend on the construction route:
/// the same `l`-bit content produced (a) by with_len + set_int, (b) by pushing bits then
/// popping `extra` surplus bits, (c) by resize up with the wrong fill then down, compares equal.
pub fn raw_routes(l: usize, extra: usize) {
    let (a, m) = any_raw(l);
    // (b) push every bit, push `extra` ones, pop them again
    let mut b = RawVector::new();
    let mut i = 0;
    while i < l { b.push_bit(m.bit(i)); i += 1; }
    let mut j = 0;
    while j < extra { b.push_bit(true); j += 1; }
    if extra > 0 { let r = unsafe { b.pop_int(extra) }; assert!(r.is_some()); }
    // (c) word pushes, then grow with ones and shrink back
    let mut c = RawVector::with_capacity(l + extra);
    let mut k = 0;
    while k * 64 < l {
        let width = if l - k * 64 >= 64 { 64 } else { l - k * 64 };
        unsafe { c.push_int(m.w[k], width); }
        k += 1;
    }
    c.resize(l + extra, true);
    c.resize(l, false);
    check_raw(&b, &m);
    check_raw(&c, &m);
    assert!(a == b && b == c);
    assert!(a.count_ones() == b.count_ones() && b.count_ones() == c.count_ones());
    // serialized bytes identical
    let mut ba = [0u8; 8 * (2 + MW)];
    let mut bb = [0u8; 8 * (2 + MW)];
    { let mut wa: &mut [u8] = &mut ba; a.serialize(&mut wa).unwrap(); }
    { let mut wb: &mut [u8] = &mut bb; b.serialize(&mut wb).unwrap(); }
    let mut t = 0;
    while t < 8 * (2 + MW) { assert!(ba[t] == bb[t]); t += 1; }
}

// ---------------------------------------------------------------------------
// IntVector

pub const MI: usize = 10;

fn mask(w: usize) -> u64 { if w == 64 { !0u64 } else { (1u64 << w) - 1 } }

/// Arbitrary IntVector of concrete width `w` and concrete length `n` (<= MI-3) plus its model.
pub fn any_int(w: usize, n: usize) -> (IntVector, [u64; MI]) {
    let mut m = [0u64; MI];
    let mut v = IntVector::with_capacity(n + 3, w).unwrap();
    let mut i = 0;
    while i < n {
        let x = sym::u64();
        m[i] = x & mask(w);
        v.push(x);
        i += 1;
    }
    (v, m)
}

pub fn check_int(v: &IntVector, m: &[u64; MI], len: usize, w: usize) {
    assert!(v.len() == len);
    assert!(v.width() == w);
    assert!(v.is_empty() == (len == 0));
    let mut i = 0;
    while i < MI {
        if i < len { assert!(v.get(i) == m[i]); }
        i += 1;
    }
    // the underlying raw vector obeys the raw invariant and holds exactly len*w bits
    let raw: &RawVector = v.as_ref();
    assert!(raw.len() == len * w);
    let words: &[u64] = raw.as_ref();
    assert!(words.len() == (len * w + 63) / 64);
    let tail = (len * w) & 63;
    if tail != 0 { assert!(words[words.len() - 1] >> tail == 0); }
}

pub fn int_step(w: usize, n: usize, op: u8) {
    let (mut v, mut m) = any_int(w, n);
    let mut len = n;
    let mut width = w;
    check_int(&v, &m, len, width);
    match op {
        0 => { let x = sym::u64(); v.push(x); m[len] = x & mask(w); len += 1; }
        1 => {
            let r = v.pop();
            if n == 0 { assert!(r.is_none()); } else { assert!(r == Some(m[n - 1])); len -= 1; }
        }
        2 => {
            let i = sym::usize(); sym::assume(i < n);
            assert!(v.get(i) == m[i]);
            let x = sym::u64();
            v.set(i, x);
            m[i] = x & mask(w);
            let d = sym::u64();
            let j = sym::usize();
            assert!(v.get_or(j, d) == if j < n { m[j] } else { d });
        }
        3 => {
            let k = sym::usize_in(0, n + 3);
            let x = sym::u64();
            v.resize(k, x);
            let mut i = n;
            while i < MI { if i < k { m[i] = x & mask(w); } i += 1; }
            len = k;
        }
        4 => { v.clear(); len = 0; }
        5 => { // pack: content kept, width = bit_len(max)
            v.pack();
            if n > 0 {
                let mut mx = 0u64; let mut i = 0;
                while i < n { if m[i] > mx { mx = m[i]; } i += 1; }
                let mut bl = 1; while bl < 64 && (mx >> bl) != 0 { bl += 1; }
                width = bl;
            }
        }
        6 => { // extend by three items
            let xs: [u64; 3] = [sym::u64(), sym::u64(), sym::u64()];
            v.extend(xs.iter().copied());
            let mut i = 0; while i < 3 { m[n + i] = xs[i] & mask(w); i += 1; }
            len = n + 3;
        }
        7 => { // iterators see the same sequence
            let mut it = v.iter();
            let mut i = 0;
            while i < MI { if i < n { assert!(it.len() == n - i); assert!(it.next() == Some(m[i])); } i += 1; }
            assert!(it.next().is_none());
            let c = v.clone();
            let mut it = c.into_iter();
            let mut i = 0;
            while i < MI { if i < n { assert!(it.len() == n - i); assert!(it.next() == Some(m[i])); } i += 1; }
            assert!(it.next().is_none());
        }
        _ => {}
    }
    check_int(&v, &m, len, width);
}

/// Same content by different routes compares equal, serializes identically, same popcount.
pub fn int_routes(w: usize, n: usize) {
    let (a, m) = any_int(w, n);
    // (b) with_len with a non-zero fill, then set every item
    let fill = sym::u64();
    let mut b = IntVector::with_len(n, w, fill).unwrap();
    let mut i = 0;
    while i < n { assert!(b.get(i) == fill & mask(w)); b.set(i, m[i]); i += 1; }
    // (c) push two extra items, pop them again; then resize up and down
    let mut c = IntVector::new(w).unwrap();
    let mut i = 0;
    while i < n { c.push(m[i]); i += 1; }
    c.push(!0u64); c.push(!0u64);
    assert!(c.pop() == Some(mask(w))); assert!(c.pop() == Some(mask(w)));
    c.resize(n + 2, !0u64);
    c.resize(n, 0);
    check_int(&b, &m, n, w);
    check_int(&c, &m, n, w);
    assert!(a == b && b == c);
    let ra: &RawVector = a.as_ref(); let rc: &RawVector = c.as_ref();
    assert!(ra.count_ones() == rc.count_ones());
    let mut ba = [0u8; 8 * (4 + MI)];
    let mut bc = [0u8; 8 * (4 + MI)];
    { let mut wa: &mut [u8] = &mut ba; a.serialize(&mut wa).unwrap(); }
    { let mut wc: &mut [u8] = &mut bc; c.serialize(&mut wc).unwrap(); }
    let mut t = 0;
    while t < 8 * (4 + MI) { assert!(ba[t] == bc[t]); t += 1; }
}

macro_rules! from_vec_harness {
    ($name:ident, $t:ty, $w:expr, $any:path) => {
        pub fn $name() {
            let xs: [$t; 3] = [$any() as $t, $any() as $t, $any() as $t];
            let a = IntVector::from(vec![xs[0], xs[1], xs[2]]);
            let b: IntVector = xs.iter().copied().collect();
            let mut m = [0u64; MI];
            m[0] = xs[0] as u64; m[1] = xs[1] as u64; m[2] = xs[2] as u64;
            check_int(&a, &m, 3, $w);
            check_int(&b, &m, 3, $w);
            assert!(a == b);
        }
    };
}
from_vec_harness!(from_u8, u8, 8, sym::u8);
from_vec_harness!(from_u16, u16, 16, sym::u16);
from_vec_harness!(from_u32, u32, 32, sym::u32);
from_vec_harness!(from_u64, u64, 64, sym::u64);
from_vec_harness!(from_usize, usize, 64, sym::usize);

/// Constructors validate the width; size_by_params arithmetic.
pub fn int_ctor() {
    let w = sym::usize();
    let bad = w == 0 || w > 64;
    assert!(IntVector::new(w).is_err() == bad);
    assert!(IntVector::with_capacity(0, w).is_err() == bad);
    assert!(IntVector::with_len(0, w, 0).is_err() == bad);
    let d = IntVector::default();
    assert!(d.len() == 0 && d.width() == 64);
}
